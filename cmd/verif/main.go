// verif: driver of the deterministic-simulation checks for islishude/bip39.
//
//	verif check <Cxx> [--tier quick|thorough]
//	verif replay <file>
package main

import (
	"fmt"
	"os"

	"a0verif/drv"
)

func usage() {
	fmt.Fprintln(os.Stderr, "usage: verif check <C06|C07|C09|C12|C13|C17> [--tier quick|thorough] | verif replay <file> | verif audit <Cxx>")
	os.Exit(2)
}

func main() {
	if len(os.Args) < 3 {
		usage()
	}
	tier := ""
	args := []string{}
	for i := 1; i < len(os.Args); i++ {
		if os.Args[i] == "--tier" && i+1 < len(os.Args) {
			tier = os.Args[i+1]
			i++
			continue
		}
		args = append(args, os.Args[i])
	}
	e, err := drv.NewEnv(tier)
	if err != nil {
		fmt.Println("TROUBLE:", err)
		os.Exit(2)
	}
	code := 2
	func() {
		defer e.Cleanup()
		fmt.Printf("VERIF_SEED=%d tier=%s repo=%s\n", int64(e.Seed), e.Tier, e.Repo)
		switch args[0] {
		case "check":
			f, ok := drv.Checks[args[1]]
			if !ok {
				fmt.Println("TROUBLE: no check for", args[1])
				return
			}
			code, err = f(e)
		case "replay":
			code, err = drv.Replay(e, args[1])
		default:
			usage()
		}
		if err != nil {
			fmt.Println("TROUBLE:", err)
			if code == 0 {
				code = 2
			}
		}
	}()
	os.Exit(code)
}
