// instr: instruments a scratch copy of the repository in place (debug helper;
// the driver calls the library directly).
package main

import (
	"encoding/json"
	"fmt"
	"os"

	"a0verif/instr"
)

func main() {
	var rep *instr.Report
	var err error
	if len(os.Args) > 2 && os.Args[2] == "tool" {
		rep, err = instr.Tool(os.Args[1], "update-wordlist")
	} else {
		rep, err = instr.Library(os.Args[1])
	}
	if err != nil {
		fmt.Println("ERR", err)
		os.Exit(2)
	}
	b, _ := json.MarshalIndent(rep, "", " ")
	fmt.Println(string(b))
}
