package bip39_test

// Demonstration for C17, pair 2 (concurrent download, files rendered in memory
// and stored afterwards).
//
// Builds the tool with -tags verif, serves it word files from a scratch
// directory (BIP39_VERIF_UPSTREAM) and checks that every generated Go file
// parses, declares the right variable and lists exactly the non-empty input
// lines - also when the target directory already holds files from an earlier
// generation, as it always does in the repository.

import (
	"fmt"
	"go/ast"
	"go/parser"
	"go/token"
	"io/ioutil"
	"os"
	"os/exec"
	"path/filepath"
	"strconv"
	"strings"
	"testing"

	"github.com/islishude/bip39/internal/wordlist"
)

var demoTargets = []struct {
	file, variable string
	canonical      []string
}{
	{"chinese_simplified", "ChineseSimplified", wordlist.ChineseSimplified},
	{"chinese_traditional", "ChineseTraditional", wordlist.ChineseTraditional},
	{"czech", "Czech", wordlist.Czech},
	{"english", "English", wordlist.English},
	{"french", "French", wordlist.French},
	{"italian", "Italian", wordlist.Italian},
	{"japanese", "Japanese", wordlist.Japanese},
	{"korean", "Korean", wordlist.Korean},
	{"portuguese", "Portuguese", wordlist.Portuguese},
	{"spanish", "Spanish", wordlist.Spanish},
}

func demoBuildTool(t *testing.T) string {
	t.Helper()
	bin := filepath.Join(t.TempDir(), "update-wordlist")
	cmd := exec.Command("go", "build", "-tags", "verif", "-o", bin, "./update-wordlist")
	if out, err := cmd.CombinedOutput(); err != nil {
		t.Fatalf("building the tool: %v\n%s", err, out)
	}
	return bin
}

// demoRun writes the ten bodies below a fresh upstream directory, runs the tool
// in workdir (which holds internal/wordlist) and returns nothing: the caller
// inspects workdir afterwards.
func demoRun(t *testing.T, bin, workdir string, bodies map[string]string, frag string) {
	t.Helper()
	up := t.TempDir()
	dir := filepath.Join(up, "bitcoin", "bips", "master", "bip-0039")
	if err := os.MkdirAll(dir, 0777); err != nil {
		t.Fatal(err)
	}
	for name, body := range bodies {
		if err := ioutil.WriteFile(filepath.Join(dir, name+".txt"), []byte(body), 0666); err != nil {
			t.Fatal(err)
		}
	}
	if err := os.MkdirAll(filepath.Join(workdir, "internal", "wordlist"), 0777); err != nil {
		t.Fatal(err)
	}
	cmd := exec.Command(bin)
	cmd.Dir = workdir
	cmd.Env = append(os.Environ(), "BIP39_VERIF_UPSTREAM="+up)
	if frag != "" {
		cmd.Env = append(cmd.Env, "BIP39_VERIF_FRAG="+frag)
	}
	if out, err := cmd.CombinedOutput(); err != nil {
		t.Fatalf("tool failed: %v\n%s", err, out)
	}
}

// demoParse returns the variable name and the list found in a generated file.
func demoParse(path string) (string, []string, error) {
	src, err := ioutil.ReadFile(path)
	if err != nil {
		return "", nil, err
	}
	f, err := parser.ParseFile(token.NewFileSet(), path, src, 0)
	if err != nil {
		return "", nil, fmt.Errorf("generated file does not compile: %v", err)
	}
	if f.Name.Name != "wordlist" || len(f.Decls) != 1 {
		return "", nil, fmt.Errorf("unexpected file layout in %s", path)
	}
	gd, ok := f.Decls[0].(*ast.GenDecl)
	if !ok || gd.Tok != token.VAR || len(gd.Specs) != 1 {
		return "", nil, fmt.Errorf("unexpected declaration in %s", path)
	}
	vs := gd.Specs[0].(*ast.ValueSpec)
	if len(vs.Names) != 1 || len(vs.Values) != 1 {
		return "", nil, fmt.Errorf("unexpected var spec in %s", path)
	}
	cl, ok := vs.Values[0].(*ast.CompositeLit)
	if !ok {
		return "", nil, fmt.Errorf("value is no composite literal in %s", path)
	}
	words := []string{}
	for _, e := range cl.Elts {
		bl, ok := e.(*ast.BasicLit)
		if !ok || bl.Kind != token.STRING {
			return "", nil, fmt.Errorf("non-string element in %s", path)
		}
		w, err := strconv.Unquote(bl.Value)
		if err != nil {
			return "", nil, err
		}
		words = append(words, w)
	}
	return vs.Names[0].Name, words, nil
}

func demoNonEmptyLines(body string) []string {
	want := []string{}
	for _, l := range strings.Split(body, "\n") {
		if l != "" {
			want = append(want, l)
		}
	}
	return want
}

func demoCheck(t *testing.T, workdir string, bodies map[string]string, label string) {
	t.Helper()
	for _, tg := range demoTargets {
		path := filepath.Join(workdir, "internal", "wordlist", tg.file+".go")
		name, got, err := demoParse(path)
		if err != nil {
			t.Errorf("%s: %s: %v", label, tg.file, err)
			continue
		}
		if name != tg.variable {
			t.Errorf("%s: %s: variable %s, want %s", label, tg.file, name, tg.variable)
		}
		want := demoNonEmptyLines(bodies[tg.file])
		if len(got) != len(want) {
			t.Errorf("%s: %s: %d words generated, %d non-empty lines in the input", label, tg.file, len(got), len(want))
			continue
		}
		for i := range want {
			if got[i] != want[i] {
				t.Errorf("%s: %s: word %d is %q, input line is %q", label, tg.file, i, got[i], want[i])
				break
			}
		}
	}
}

func demoCanonicalBodies() map[string]string {
	bodies := map[string]string{}
	for _, tg := range demoTargets {
		bodies[tg.file] = strings.Join(tg.canonical, "\n") + "\n"
	}
	return bodies
}

func TestDemoC17RegenerateOverExistingFiles(t *testing.T) {
	bin := demoBuildTool(t)
	work := t.TempDir()
	outdir := filepath.Join(work, "internal", "wordlist")
	if err := os.MkdirAll(outdir, 0777); err != nil {
		t.Fatal(err)
	}

	// start from the committed (gofmt-ed) files, as "make update-wordlist" does
	for _, tg := range demoTargets {
		src, err := ioutil.ReadFile(filepath.Join("internal", "wordlist", tg.file+".go"))
		if err != nil {
			t.Fatal(err)
		}
		if err := ioutil.WriteFile(filepath.Join(outdir, tg.file+".go"), src, 0666); err != nil {
			t.Fatal(err)
		}
	}

	// 1. regenerate from the canonical lists over the committed files
	canon := demoCanonicalBodies()
	demoRun(t, bin, work, canon, "")
	demoCheck(t, work, canon, "canonical lists over the committed files")

	// 2. upstream now serves shorter files (fewer or shorter words, with and
	// without trailing newline): regenerate into the same directory
	short := map[string]string{}
	for i, tg := range demoTargets {
		short[tg.file] = strings.Join(tg.canonical[:100*(i+1)], "\n")
		if i%2 == 0 {
			short[tg.file] += "\n"
		}
	}
	short["english"] = "zoo"
	short["czech"] = ""
	demoRun(t, bin, work, short, "3")
	demoCheck(t, work, short, "shorter lists over the files of step 1")

	// 3. and back to the canonical lists
	demoRun(t, bin, work, canon, "4")
	demoCheck(t, work, canon, "canonical lists over the files of step 2")
}
