package bip39

// Demonstration for twin pair 2 (property C07).
//
// The process-wide crypto/rand.Reader is replaced by a simulated kernel device
// and the package source is pointed at that very same value, so that the
// library sees "the default, un-swapped source" (cryptoRander == rand.Reader).
//
// Several goroutines call NewMnemonic at the same moment. The device keeps
// every Read waiting until all callers are inside Read, then serves them one
// after the other, each with its own block of bytes (block k is filled with
// bytes derived from k), and lets them return only when all have been served.
// This is merely a slow kernel under load; no call fails and nothing is short.
//
// Every caller must get the encoding of the block the device gave to it, so
// the set of mnemonics must be exactly the set of encodings of blocks 1..N:
// no block may show up twice and none may be missing.

import (
	"crypto/rand"
	"sort"
	"sync"
	"testing"
	"time"
)

type gateDevice struct {
	mu      sync.Mutex
	cond    *sync.Cond
	callers int // Reads that take part in the current round
	entered int
	served  int
	block   int
}

func newGateDevice() *gateDevice {
	d := &gateDevice{}
	d.cond = sync.NewCond(&d.mu)
	return d
}

func blockByte(block, i int) byte { return byte(block*37 + i*11 + 5) }

func (d *gateDevice) arm(callers int) {
	d.mu.Lock()
	d.callers, d.entered, d.served = callers, 0, 0
	d.mu.Unlock()
}

func (d *gateDevice) Read(p []byte) (int, error) {
	d.mu.Lock()
	defer d.mu.Unlock()
	d.entered++
	d.cond.Broadcast()
	for d.entered < d.callers {
		d.cond.Wait()
	}
	d.block++
	for i := range p {
		p[i] = blockByte(d.block, i)
	}
	d.served++
	d.cond.Broadcast()
	for d.served < d.callers {
		d.cond.Wait()
	}
	return len(p), nil
}

func TestDemoC07DefaultSourceBusyCallers(t *testing.T) {
	dev := newGateDevice()

	savedOS, savedPkg := rand.Reader, cryptoRander
	rand.Reader, cryptoRander = dev, dev
	defer func() { rand.Reader, cryptoRander = savedOS, savedPkg }()

	nextBlock := 1
	for _, callers := range []int{1, 2, 4, 5, 7, 16, 3} {
		for _, words := range []int{12, 24, 15} {
			size := words / 3 * 4
			dev.arm(callers)

			got := make([]string, callers)
			errs := make([]error, callers)
			var wg sync.WaitGroup
			for g := 0; g < callers; g++ {
				wg.Add(1)
				go func(g int) {
					defer wg.Done()
					got[g], errs[g] = NewMnemonic(words, English)
				}(g)
			}
			done := make(chan struct{})
			go func() { wg.Wait(); close(done) }()
			select {
			case <-done:
			case <-time.After(60 * time.Second):
				t.Fatalf("callers=%d words=%d: calls did not finish: a caller waiting for entropy holds up the others", callers, words)
			}

			var want []string
			for k := 0; k < callers; k++ {
				ent := make([]byte, size)
				for i := range ent {
					ent[i] = blockByte(nextBlock, i)
				}
				nextBlock++
				m, err := NewMnemonicByEntropy(ent, English)
				if err != nil {
					t.Fatal(err)
				}
				want = append(want, m)
			}
			for g, err := range errs {
				if err != nil {
					t.Fatalf("callers=%d words=%d: caller %d: unexpected error %v", callers, words, g, err)
				}
			}
			sort.Strings(got)
			sort.Strings(want)
			for i := range want {
				if got[i] != want[i] {
					wanted := map[string]bool{}
					for _, m := range want {
						wanted[m] = true
					}
					seen := map[string]int{}
					dup, foreign := 0, 0
					for _, m := range got {
						seen[m]++
						if seen[m] == 2 {
							dup++
						}
						if !wanted[m] {
							foreign++
						}
					}
					t.Errorf("callers=%d words=%d: the mnemonics are not the encodings of the %d distinct blocks the default source delivered (%d mnemonic(s) handed to more than one caller, %d mnemonic(s) that encode none of the delivered blocks)\n got  %q\n want %q", callers, words, callers, dup, foreign, got, want)
					break
				}
			}
		}
	}
}
