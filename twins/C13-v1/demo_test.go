package bip39_test

// Demonstration for C13 (pair 1): the outcome of a call must not depend on the
// language - supported or not - that was used by the call before it.
//
// Run: go test -count=1 -run 'TestDemoC13' .

import (
	"fmt"
	"testing"

	"github.com/islishude/bip39"
)

func demoEntropy() []byte {
	e := make([]byte, 16)
	for i := range e {
		e[i] = byte(i*7 + 1)
	}
	return e
}

// outcome renders everything a caller can observe of the calls made with lang.
func outcome(lang bip39.Language, valid string) string {
	m, err := bip39.NewMnemonicByEntropy(demoEntropy(), lang)
	chk := bip39.CheckMnemonic(valid, lang)
	ok := bip39.IsMnemonicValid(valid, lang)
	return fmt.Sprintf("enc=%q err=%v check=%v valid=%v", m, err, chk, ok)
}

func TestDemoC13KnownAnswersAfterUnsupportedLanguage(t *testing.T) {
	const zhS = "人 罪 秧 派 告 贸 络 家 汉 描 文 扭"
	const en = "absurd document sheriff demise dress october topic angry exact priority boat stamp"

	for _, unsupported := range []bip39.Language{10, 99, -1, -7, 1 << 20} {
		// an unsupported value encodes with the English list ...
		got, err := bip39.NewMnemonicByEntropy(demoEntropy(), unsupported)
		if err != nil || got != en {
			t.Fatalf("Language(%d): got %q, %v", int(unsupported), got, err)
		}
		// ... and must leave no trace for whoever comes next.
		got, err = bip39.NewMnemonicByEntropy(demoEntropy(), bip39.ChineseSimplified)
		if err != nil || got != zhS {
			t.Errorf("ChineseSimplified right after Language(%d): got %q, %v; want %q",
				int(unsupported), got, err, zhS)
		}
		if bip39.IsMnemonicValid(en, unsupported) {
			t.Errorf("Language(%d) must not validate anything", int(unsupported))
		}
		if err := bip39.CheckMnemonic(zhS, bip39.ChineseSimplified); err != nil {
			t.Errorf("CheckMnemonic(ChineseSimplified) right after Language(%d): %v", int(unsupported), err)
		}
		_ = bip39.CheckMnemonic(en, unsupported)
		if err := bip39.CheckMnemonic(en, bip39.English); err != nil {
			t.Errorf("CheckMnemonic(English) right after Language(%d): %v", int(unsupported), err)
		}
	}
}

func TestDemoC13EveryOrderedPairOfLanguages(t *testing.T) {
	langs := []bip39.Language{
		bip39.ChineseSimplified, bip39.ChineseTraditional, bip39.English, bip39.French,
		bip39.Italian, bip39.Japanese, bip39.Korean, bip39.Spanish, bip39.Czech, bip39.Portuguese,
		10, 99, -1,
	}
	// the mnemonic each language itself produces for the demo entropy
	valid := make(map[bip39.Language]string)
	for _, l := range langs {
		// called twice in a row: the second result is taken
		_, _ = bip39.NewMnemonicByEntropy(demoEntropy(), l)
		m, err := bip39.NewMnemonicByEntropy(demoEntropy(), l)
		if err != nil {
			t.Fatal(err)
		}
		valid[l] = m
	}
	for _, second := range langs {
		seen := make(map[string]bip39.Language)
		for _, first := range langs {
			_ = outcome(first, valid[first])
			o := outcome(second, valid[second])
			seen[o] = first
		}
		if len(seen) != 1 {
			t.Errorf("outcome for Language(%d) depends on the language used before it:", int(second))
			for o, first := range seen {
				t.Errorf("   after Language(%d): %s", int(first), o)
			}
		}
	}
}
