package bip39_test

// Demonstration for twin pair 1 of property C17 (update-wordlist reproduces its
// upstream input faithfully): an output file that is a relative symlink.
//
// Run from the repository root:
//
//	go test -count=1 -run 'TestDemoC17' .
//
// The test builds ./update-wordlist with -tags verif (fetches are then served from
// the directory in BIP39_VERIF_UPSTREAM) and runs it with NO arguments in scratch
// working directories.

import (
	"context"
	"fmt"
	"go/ast"
	"go/parser"
	"go/token"
	"os"
	"os/exec"
	"path/filepath"
	"reflect"
	"strconv"
	"strings"
	"testing"
	"time"

	"github.com/islishude/bip39/internal/wordlist"
)

var demoVars = map[string]string{
	"chinese_simplified":  "ChineseSimplified",
	"chinese_traditional": "ChineseTraditional",
	"english":             "English",
	"french":              "French",
	"italian":             "Italian",
	"japanese":            "Japanese",
	"korean":              "Korean",
	"spanish":             "Spanish",
	"czech":               "Czech",
	"portuguese":          "Portuguese",
}

func demoCanonical() map[string][]string {
	return map[string][]string{
		"chinese_simplified":  wordlist.ChineseSimplified,
		"chinese_traditional": wordlist.ChineseTraditional,
		"english":             wordlist.English,
		"french":              wordlist.French,
		"italian":             wordlist.Italian,
		"japanese":            wordlist.Japanese,
		"korean":              wordlist.Korean,
		"spanish":             wordlist.Spanish,
		"czech":               wordlist.Czech,
		"portuguese":          wordlist.Portuguese,
	}
}

// demoTool builds the generator (with the verif hook that serves fetches from disk).
func demoTool(t *testing.T) string {
	t.Helper()
	bin := filepath.Join(t.TempDir(), "update-wordlist")
	ctx, cancel := context.WithTimeout(context.Background(), 4*time.Minute)
	defer cancel()
	cmd := exec.CommandContext(ctx, "go", "build", "-tags", "verif", "-o", bin, "./update-wordlist")
	if out, err := cmd.CombinedOutput(); err != nil {
		t.Fatalf("go build: %v\n%s", err, out)
	}
	return bin
}

// demoUpstream writes the ten word files below dir the way the hook expects them.
func demoUpstream(t *testing.T, dir string, files map[string]string) {
	t.Helper()
	d := filepath.Join(dir, "bitcoin", "bips", "master", "bip-0039")
	if err := os.MkdirAll(d, 0777); err != nil {
		t.Fatal(err)
	}
	for lang, body := range files {
		if err := os.WriteFile(filepath.Join(d, lang+".txt"), []byte(body), 0666); err != nil {
			t.Fatal(err)
		}
	}
}

// demoRun runs the tool without arguments in work and fails the test if it does not exit 0.
func demoRun(t *testing.T, bin, work, upstream string) {
	t.Helper()
	ctx, cancel := context.WithTimeout(context.Background(), time.Minute)
	defer cancel()
	cmd := exec.CommandContext(ctx, bin)
	cmd.Dir = work
	cmd.Env = append(os.Environ(), "BIP39_VERIF_UPSTREAM="+upstream, "BIP39_VERIF_FRAG=7")
	if out, err := cmd.CombinedOutput(); err != nil {
		t.Fatalf("update-wordlist failed: %v\n%s", err, out)
	}
}

// demoParse reads the generated file and returns the strings of `var <variable> = []string{...}`.
func demoParse(path, variable string) ([]string, error) {
	fset := token.NewFileSet()
	f, err := parser.ParseFile(fset, path, nil, 0)
	if err != nil {
		return nil, fmt.Errorf("does not parse: %v", err)
	}
	if f.Name.Name != "wordlist" {
		return nil, fmt.Errorf("package %s, want wordlist", f.Name.Name)
	}
	if len(f.Decls) != 1 {
		return nil, fmt.Errorf("%d declarations, want 1", len(f.Decls))
	}
	gd, ok := f.Decls[0].(*ast.GenDecl)
	if !ok || gd.Tok != token.VAR || len(gd.Specs) != 1 {
		return nil, fmt.Errorf("not a single var declaration")
	}
	vs := gd.Specs[0].(*ast.ValueSpec)
	if len(vs.Names) != 1 || vs.Names[0].Name != variable || len(vs.Values) != 1 {
		return nil, fmt.Errorf("declares %v, want %s", vs.Names, variable)
	}
	cl, ok := vs.Values[0].(*ast.CompositeLit)
	if !ok {
		return nil, fmt.Errorf("value is not a composite literal")
	}
	list := []string{}
	for _, e := range cl.Elts {
		bl, ok := e.(*ast.BasicLit)
		if !ok || bl.Kind != token.STRING {
			return nil, fmt.Errorf("element is not a string literal")
		}
		s, err := strconv.Unquote(bl.Value)
		if err != nil {
			return nil, err
		}
		list = append(list, s)
	}
	return list, nil
}

func demoWant(body string) []string {
	want := []string{}
	for _, l := range strings.Split(body, "\n") {
		if l != "" {
			want = append(want, l)
		}
	}
	return want
}

// demoCheck compares every generated list below work with its input.
func demoCheck(t *testing.T, work string, files map[string]string) {
	t.Helper()
	for lang, body := range files {
		path := filepath.Join(work, "internal", "wordlist", lang+".go")
		got, err := demoParse(path, demoVars[lang])
		if err != nil {
			t.Errorf("%s: %v", path, err)
			continue
		}
		if want := demoWant(body); !reflect.DeepEqual(got, want) {
			t.Errorf("%s: list of %d words differs from the %d input words", path, len(got), len(want))
		}
	}
}

// demoInputs returns the canonical lists as LF-terminated files; with variant != 0 the
// files get other lengths and shapes (blank lines, no final newline).
func demoInputs(variant int) map[string]string {
	files := map[string]string{}
	i := 0
	for lang, words := range demoCanonical() {
		i++
		switch variant {
		case 0:
			files[lang] = strings.Join(words, "\n") + "\n"
		case 1: // shorter lists, a blank line in the middle, some without final newline
			n := 100 + 37*i
			body := strings.Join(words[:n], "\n") + "\n\n" + strings.Join(words[2048-n:], "\n")
			if i%2 == 0 {
				body += "\n"
			}
			files[lang] = body
		case 2: // older, longer lists
			body := strings.Join(words, "\n") + "\n" + strings.Join(words[:500+i], "\n") + "\n"
			files[lang] = body
		}
	}
	return files
}

func demoWork(t *testing.T) (work, upstream string) {
	t.Helper()
	root := t.TempDir()
	work = filepath.Join(root, "checkout", "repo")
	upstream = filepath.Join(root, "upstream")
	if err := os.MkdirAll(filepath.Join(work, "internal", "wordlist"), 0777); err != nil {
		t.Fatal(err)
	}
	return work, upstream
}

// A fresh, empty output directory: canonical input reproduces the committed lists.
func TestDemoC17Fresh(t *testing.T) {
	work, upstream := demoWork(t)
	files := demoInputs(0)
	demoUpstream(t, upstream, files)
	demoRun(t, demoTool(t), work, upstream)
	demoCheck(t, work, files)
}

// Two of the output files are relative symlinks to files kept next to the package
// directory (one target exists with old content, the other does not exist yet). The
// tool has always written through them; afterwards the link must still lead to the
// faithful list.
func TestDemoC17RelativeSymlink(t *testing.T) {
	work, upstream := demoWork(t)
	out := filepath.Join(work, "internal", "wordlist")
	if err := os.MkdirAll(filepath.Join(work, "internal", "generated"), 0777); err != nil {
		t.Fatal(err)
	}
	if err := os.WriteFile(filepath.Join(work, "internal", "generated", "english.go"),
		[]byte("package wordlist\n\nvar English = []string{\"old\"}\n"), 0644); err != nil {
		t.Fatal(err)
	}
	links := map[string]string{
		"english": filepath.Join("..", "generated", "english.go"),
		"korean":  filepath.Join("..", "generated", "korean.go"),
	}
	demoSymlinkScenario(t, work, upstream, out, links)
}

// The same with a link to a sibling in the output directory itself (a name the go tool ignores).
func TestDemoC17SiblingSymlink(t *testing.T) {
	work, upstream := demoWork(t)
	out := filepath.Join(work, "internal", "wordlist")
	if err := os.WriteFile(filepath.Join(out, "_czech.go"),
		[]byte("package wordlist\n\nvar Czech = []string{\"old\"}\n"), 0644); err != nil {
		t.Fatal(err)
	}
	demoSymlinkScenario(t, work, upstream, out, map[string]string{"czech": "_czech.go"})
}

func demoSymlinkScenario(t *testing.T, work, upstream, out string, links map[string]string) {
	t.Helper()
	for lang, target := range links {
		if err := os.Symlink(target, filepath.Join(out, lang+".go")); err != nil {
			t.Fatal(err)
		}
	}
	files := demoInputs(1)
	demoUpstream(t, upstream, files)
	demoRun(t, demoTool(t), work, upstream)
	demoCheck(t, work, files)
	for lang := range links {
		fi, err := os.Lstat(filepath.Join(out, lang+".go"))
		if err != nil || fi.Mode()&os.ModeSymlink == 0 {
			t.Errorf("%s.go is no longer a symlink (%v)", lang, err)
		}
	}
}
