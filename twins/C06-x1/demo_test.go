package bip39

import (
	"errors"
	"fmt"
	"io"
	"testing"
)

// demoSource is a scripted entropy device: it delivers the bytes 1,2,3,...
// in reads of at most frag bytes, optionally preceded by empty reads, and
// fails when failAt bytes have been delivered. The failing Read returns the
// error together with up to withData bytes (the last ones before failAt).
// After the failure it either keeps failing (sticky) or works again.
type demoSource struct {
	frag     int   // at most this many bytes per Read (0: no limit)
	empties  int   // empty reads (0, nil) before every productive read
	failAt   int   // -1: never
	withData int   // bytes returned alongside the error
	failWith error // the error
	sticky   bool

	delivered int
	reads     int
	pause     int
	failed    bool
}

func (s *demoSource) Read(p []byte) (int, error) {
	s.reads++
	if s.failed && s.sticky {
		return 0, s.failWith
	}
	if s.pause < s.empties {
		s.pause++
		return 0, nil
	}
	s.pause = 0
	n := len(p)
	if s.frag > 0 && n > s.frag {
		n = s.frag
	}
	var err error
	if s.failAt >= 0 && !s.failed {
		switch left := s.failAt - s.delivered; {
		case left <= s.withData:
			// the failing read (or a run-up to it, if p is too small)
			if n >= left {
				n = left
				err = s.failWith
				s.failed = true
			}
		case n > left-s.withData:
			n = left - s.withData
		}
	}
	for i := 0; i < n; i++ {
		s.delivered++
		p[i] = byte(s.delivered)
	}
	return n, err
}

var errDemoDevice = errors.New("demo: entropy device failure")

// expectation by the definition of the property, using io.ReadFull on an
// identical device as the reference.
func demoWant(t *testing.T, words int, ref *demoSource) (string, error) {
	buf := make([]byte, words/3*4)
	if _, err := io.ReadFull(ref, buf); err != nil {
		return "", err
	}
	m, err := NewMnemonicByEntropy(buf, English)
	if err != nil {
		t.Fatal(err)
	}
	return m, nil
}

var demoFailures int

func demoRun(t *testing.T, words int, proto demoSource) {
	t.Helper()
	errorf := func(format string, args ...interface{}) {
		t.Helper()
		if demoFailures++; demoFailures > 6 {
			t.Fatalf("... more failures not shown")
		}
		t.Errorf(format, args...)
	}
	ref, dev := proto, proto
	want, wantErr := demoWant(t, words, &ref)

	prev := cryptoRander
	cryptoRander = &dev
	got, err := NewMnemonic(words, English)
	cryptoRander = prev

	desc := fmt.Sprintf("words=%d frag=%d empties=%d failAt=%d withData=%d err=%v sticky=%v",
		words, proto.frag, proto.empties, proto.failAt, proto.withData, proto.failWith, proto.sticky)
	if wantErr != nil {
		if err == nil || got != "" {
			errorf("%s: source failed after %d of %d bytes but NewMnemonic returned (%q, %v); want \"\" and an error",
				desc, proto.failAt, words/3*4, got, err)
			return
		}
		if err != wantErr {
			errorf("%s: error = %v, want %v", desc, err, wantErr)
		}
	} else if err != nil || got != want {
		errorf("%s: NewMnemonic = (%q, %v), want (%q, nil)", desc, got, err, want)
	}
	if dev.delivered != ref.delivered {
		errorf("%s: consumed %d bytes of the source, want %d", desc, dev.delivered, ref.delivered)
	}
}

func TestDemoSourceFragmentation(t *testing.T) {
	for _, words := range []int{12, 15, 18, 21, 24} {
		for frag := 0; frag <= 9; frag++ {
			for empties := 0; empties <= 2; empties++ {
				demoRun(t, words, demoSource{frag: frag, empties: empties, failAt: -1})
			}
		}
	}
}

func TestDemoSourceFailures(t *testing.T) {
	for _, words := range []int{12, 15, 18, 21, 24} {
		need := words / 3 * 4
		for failAt := 0; failAt <= need; failAt++ {
			for _, e := range []error{io.EOF, io.ErrUnexpectedEOF, errDemoDevice} {
				for withData := 0; withData <= failAt && withData <= 9; withData++ {
					for _, frag := range []int{0, 1, 3, 8} {
						for _, sticky := range []bool{true, false} {
							demoRun(t, words, demoSource{frag: frag, failAt: failAt, withData: withData, failWith: e, sticky: sticky})
						}
					}
				}
			}
		}
	}
}
