package bip39

// Demonstration for twin pair 1 (property C12).
//
// Run with the race detector:
//
//	go test -race -count=1 -run '^TestDemoColdStartSameLanguage$' .
//
// Cold start matters (the lookup tables are built lazily, once per process),
// so the test re-executes its own test binary a few times; every child is a
// fresh process in which, for each language in turn, a group of goroutines
// asks for the same still unbuilt language at the same moment.

import (
	"fmt"
	"os"
	"os/exec"
	"strings"
	"sync"
	"testing"
)

const (
	demoChildEnv   = "BIP39_DEMO_C12_CHILD"
	demoGoroutines = 16
	demoProcesses  = 4
)

func TestDemoColdStartSameLanguage(t *testing.T) {
	if os.Getenv(demoChildEnv) == "1" {
		demoColdStartChild(t)
		return
	}
	for p := 0; p < demoProcesses; p++ {
		cmd := exec.Command(os.Args[0], "-test.run=^TestDemoColdStartSameLanguage$", "-test.count=1")
		cmd.Env = append(os.Environ(), demoChildEnv+"=1")
		out, err := cmd.CombinedOutput()
		if err != nil {
			s := string(out)
			if len(s) > 6000 {
				s = s[:6000] + "\n[...]"
			}
			t.Fatalf("fresh process %d: concurrent first use went wrong (%v):\n%s", p, err, s)
		}
	}
}

func demoEntropy(lang Language, g int) []byte {
	size := 16 + 4*(g%5)
	ent := make([]byte, size)
	for i := range ent {
		ent[i] = byte(1 + (int(lang)*31+g*17+i*7)%255)
	}
	return ent
}

func demoColdStartChild(t *testing.T) {
	langs := []Language{Korean, English, Japanese, ChineseSimplified, ChineseTraditional,
		French, Italian, Spanish, Czech, Portuguese}
	for _, lang := range langs {
		// NewMnemonicByEntropy does not need the lookup table of the language.
		good := make([]string, demoGoroutines)
		bad := make([]string, demoGoroutines)
		for g := range good {
			m, err := NewMnemonicByEntropy(demoEntropy(lang, g), lang)
			if err != nil {
				t.Fatal(err)
			}
			good[g] = m
			words := strings.Split(strings.Replace(m, "\u3000", " ", -1), " ")
			words[len(words)-1-g%3] = fmt.Sprintf("nosuchword%d", g)
			bad[g] = strings.Join(words, " ")
		}

		// first use of the language: all goroutines at once
		var (
			start   = make(chan struct{})
			wg      sync.WaitGroup
			errGood = make([]error, demoGoroutines)
			okGood  = make([]bool, demoGoroutines)
			errBad  = make([]error, demoGoroutines)
		)
		for g := 0; g < demoGoroutines; g++ {
			wg.Add(1)
			go func(g int) {
				defer wg.Done()
				<-start
				errGood[g] = CheckMnemonic(good[g], lang)
				okGood[g] = IsMnemonicValid(good[g], lang)
				errBad[g] = CheckMnemonic(bad[g], lang)
			}(g)
		}
		close(start)
		wg.Wait()

		// every call must have returned what it returns when run alone
		for g := 0; g < demoGoroutines; g++ {
			if errGood[g] != nil || !okGood[g] {
				t.Errorf("%v, goroutine %d: valid mnemonic rejected during concurrent first use: err=%v valid=%v",
					lang, g, errGood[g], okGood[g])
			}
			alone := CheckMnemonic(bad[g], lang)
			if alone == nil || errBad[g] == nil || alone.Error() != errBad[g].Error() {
				t.Errorf("%v, goroutine %d: concurrent result %v differs from result alone %v",
					lang, g, errBad[g], alone)
			}
		}
	}
}
