package bip39

// Demonstration for twin pair 1 (property C06).
//
// Run:  go test -count=1 -run 'TestDemoC06' .
//
// The source is injected through the package-level variable cryptoRander
// (internal test, no build tag needed).

import (
	"errors"
	"fmt"
	"io"
	"testing"
)

// scriptedSource delivers data in reads of the given sizes (the last size is
// repeated). When data is exhausted it returns fail (io.EOF if fail is nil).
// It counts how many bytes it handed out.
type scriptedSource struct {
	data      []byte
	sizes     []int
	fail      error
	calls     int
	delivered int
}

func (s *scriptedSource) Read(p []byte) (int, error) {
	if len(s.data) == 0 {
		if s.fail != nil {
			return 0, s.fail
		}
		return 0, io.EOF
	}
	sz := s.sizes[len(s.sizes)-1]
	if s.calls < len(s.sizes) {
		sz = s.sizes[s.calls]
	}
	s.calls++
	if sz > len(p) {
		sz = len(p)
	}
	if sz > len(s.data) {
		sz = len(s.data)
	}
	copy(p, s.data[:sz])
	s.data = s.data[sz:]
	s.delivered += sz
	return sz, nil
}

func demoBytes(n int) []byte {
	b := make([]byte, n)
	for i := range b {
		b[i] = byte(0xA5 ^ (i*37 + 11))
	}
	return b
}

func withSource(r io.Reader, f func()) {
	prev := cryptoRander
	cryptoRander = r
	defer func() { cryptoRander = prev }()
	f()
}

// Every fragmentation "first read delivers k bytes, then one byte at a time"
// must give the encoding of exactly the first 4n/3 bytes.
func TestDemoC06Fragmentation(t *testing.T) {
	for _, words := range []int{12, 15, 18, 21, 24} {
		size := words + words/3
		data := demoBytes(size + 8) // more than needed is available
		want, err := NewMnemonicByEntropy(data[:size], English)
		if err != nil {
			t.Fatal(err)
		}
		for k := 1; k <= size; k++ {
			src := &scriptedSource{data: append([]byte(nil), data...), sizes: []int{k, 1}}
			var got string
			withSource(src, func() { got, err = NewMnemonic(words, English) })
			if err != nil {
				t.Errorf("n=%d first read of %d bytes: unexpected error %v", words, k, err)
				continue
			}
			if got != want {
				t.Errorf("n=%d first read of %d bytes: mnemonic is not the encoding of the %d bytes delivered first\n got  %q\n want %q", words, k, size, got, want)
			}
			if src.delivered != size {
				t.Errorf("n=%d first read of %d bytes: consumed %d bytes, want %d", words, k, src.delivered, size)
			}
		}
	}
}

// A source that dies after k < 4n/3 bytes must give ("", err) for every k.
func TestDemoC06FailClosed(t *testing.T) {
	boom := errors.New("entropy device failed")
	for _, words := range []int{12, 15, 18, 21, 24} {
		size := words + words/3
		for k := 0; k < size; k++ {
			for _, fail := range []error{nil, io.ErrUnexpectedEOF, boom} {
				for _, first := range []int{size, 1} { // one big read, or byte by byte
					src := &scriptedSource{data: demoBytes(k), sizes: []int{first}, fail: fail}
					var got string
					var err error
					withSource(src, func() { got, err = NewMnemonic(words, English) })
					name := fmt.Sprintf("n=%d source fails (%v) after %d of %d bytes, read size %d", words, fail, k, size, first)
					if err == nil || got != "" {
						t.Errorf("%s: got (%q, %v), want (\"\", non-nil error)", name, got, err)
					}
				}
			}
		}
	}
}
