package bip39

import (
	"crypto/rand"
	"fmt"
	"math/big"
	"strings"
	"sync"
	"testing"
)

// The default source is captured when the test binary starts, before any
// test had a chance to overwrite cryptoRander (the existing TestNewMnemonic
// does and never restores it).
var demoDefaultSource = cryptoRander

var (
	demoIndexOnce sync.Once
	demoIndex     map[string]int64
)

// demoEntropy decodes an English mnemonic back to its entropy bytes.
func demoEntropy(m string) ([]byte, error) {
	demoIndexOnce.Do(func() {
		demoIndex = make(map[string]int64, 2048)
		for i, w := range English.list() {
			demoIndex[w] = int64(i)
		}
	})
	words := strings.Split(m, " ")
	v := new(big.Int)
	for _, w := range words {
		i, ok := demoIndex[w]
		if !ok {
			return nil, fmt.Errorf("word %q is not in the English list", w)
		}
		v.Lsh(v, 11)
		v.Or(v, big.NewInt(i))
	}
	v.Rsh(v, uint(len(words)/3)) // drop the checksum bits
	out := make([]byte, len(words)+len(words)/3)
	b := v.Bytes()
	copy(out[len(out)-len(b):], b)
	return out, nil
}

// TestDemoDefaultSourceConcurrent (C07): several goroutines create mnemonics
// from the untouched default source at the same time, as a server would.
// Every mnemonic must be made of its own operating-system bytes only:
//   - no two calls may ever share a 16-byte entropy prefix or suffix
//     (probability 2^-128 per pair with a CSPRNG),
//   - no entropy may contain a run of 8 or more zero bytes
//     (probability < 2^-59 per mnemonic).
func TestDemoDefaultSourceConcurrent(t *testing.T) {
	if demoDefaultSource != rand.Reader {
		t.Fatalf("default source is %T, want crypto/rand.Reader itself", demoDefaultSource)
	}
	saved := cryptoRander
	cryptoRander = demoDefaultSource
	defer func() { cryptoRander = saved }()

	const workers = 8
	const perWorker = 4000
	sizes := []int{12, 15, 18, 21, 24}

	type result struct {
		worker, call int
		ent          []byte
	}
	results := make([][]result, workers)
	errs := make([]error, workers)

	var wg sync.WaitGroup
	start := make(chan struct{})
	for w := 0; w < workers; w++ {
		wg.Add(1)
		go func(w int) {
			defer wg.Done()
			<-start
			for i := 0; i < perWorker; i++ {
				words := sizes[(i+w)%len(sizes)]
				m, err := NewMnemonic(words, English)
				if err != nil {
					errs[w] = fmt.Errorf("worker %d call %d: %v", w, i, err)
					return
				}
				ent, err := demoEntropy(m)
				if err != nil {
					errs[w] = fmt.Errorf("worker %d call %d: %v", w, i, err)
					return
				}
				if len(ent) != words+words/3 {
					errs[w] = fmt.Errorf("worker %d call %d: %d entropy bytes for %d words", w, i, len(ent), words)
					return
				}
				results[w] = append(results[w], result{w, i, ent})
			}
		}(w)
	}
	close(start)
	wg.Wait()
	for _, err := range errs {
		if err != nil {
			t.Fatal(err)
		}
	}

	prefix := make(map[string]result)
	suffix := make(map[string]result)
	shared, zeroed := 0, 0
	for _, rs := range results {
		for _, r := range rs {
			run, worst := 0, 0
			for _, b := range r.ent {
				if b == 0 {
					run++
					if run > worst {
						worst = run
					}
				} else {
					run = 0
				}
			}
			if worst >= 8 {
				zeroed++
				if zeroed <= 5 {
					t.Errorf("worker %d call %d: entropy %x holds %d zero bytes in a row - not drawn from the OS source",
						r.worker, r.call, r.ent, worst)
				}
				continue
			}
			p, s := string(r.ent[:16]), string(r.ent[len(r.ent)-16:])
			if o, dup := prefix[p]; dup {
				shared++
				if shared <= 5 {
					t.Errorf("worker %d call %d and worker %d call %d share entropy bytes: %x / %x",
						o.worker, o.call, r.worker, r.call, o.ent, r.ent)
				}
			} else if o, dup := suffix[s]; dup {
				shared++
				if shared <= 5 {
					t.Errorf("worker %d call %d and worker %d call %d share entropy bytes: %x / %x",
						o.worker, o.call, r.worker, r.call, o.ent, r.ent)
				}
			}
			prefix[p] = r
			suffix[s] = r
		}
	}
	if shared+zeroed > 0 {
		t.Errorf("%d of %d mnemonics share entropy with another call, %d contain wiped (zero) bytes",
			shared, workers*perWorker, zeroed)
	}
}
