package bip39

// Demonstration for twin pair 2 (property C06): with many callers inside
// NewMnemonic at the same time (more than 64) on a machine with GOMAXPROCS >= 5,
// every caller must still get the BIP39 encoding of exactly the bytes that the
// source delivered to it - however the delivery is fragmented and however long
// a caller is parked between two fragments.
//
//	go test -count=1 -run 'TestDemoC06' -v .
//
// Passes on the unchanged code and on "good", fails on "bad". The schedule is
// forced with channels, so neither -race nor luck is needed. When the process
// has fewer than 5 Ps the test re-executes itself with GOMAXPROCS=8.

import (
	"os"
	"os/exec"
	"runtime"
	"sync"
	"sync/atomic"
	"testing"
	"time"
)

const (
	demoWords   = 12
	demoNeed    = 16 // bytes of entropy for 12 words
	demoFirst   = 8  // bytes delivered by the first read of each call
	demoHolders = 64 // callers parked inside Read before the interesting two start
)

// demoGatedSource delivers, to every call of NewMnemonic, the same 16 bytes in
// two fragments (8 + 8). The first read of a call is recognised by
// len(p) == 16, the second by len(p) == 8. Second reads can be parked:
// the first 64 of them on gate1, the 65th on gate2, later ones not at all.
type demoGatedSource struct {
	ent     [demoNeed]byte
	first   int32 // first reads seen
	second  int32 // second reads seen
	gate1   chan struct{}
	gate2   chan struct{}
	strange int32 // reads with an unexpected len(p)
}

func (s *demoGatedSource) Read(p []byte) (int, error) {
	switch len(p) {
	case demoNeed:
		n := copy(p, s.ent[:demoFirst])
		atomic.AddInt32(&s.first, 1)
		return n, nil
	case demoNeed - demoFirst:
		k := atomic.AddInt32(&s.second, 1)
		switch {
		case k <= demoHolders:
			<-s.gate1
		case k == demoHolders+1:
			<-s.gate2
		}
		return copy(p, s.ent[demoFirst:]), nil
	default:
		atomic.AddInt32(&s.strange, 1)
		return copy(p, make([]byte, len(p))), nil
	}
}

func demoWaitFor(cond func() bool, limit time.Duration) bool {
	deadline := time.Now().Add(limit)
	for !cond() {
		if time.Now().After(deadline) {
			return false
		}
		time.Sleep(2 * time.Millisecond)
	}
	return true
}

func TestDemoC06CrowdedGenerator(t *testing.T) {
	if runtime.GOMAXPROCS(0) < 5 {
		if os.Getenv("BIP39_DEMO_CHILD") != "" {
			t.Fatalf("child still has GOMAXPROCS=%d", runtime.GOMAXPROCS(0))
		}
		cmd := exec.Command(os.Args[0], "-test.run=^TestDemoC06CrowdedGenerator$", "-test.v", "-test.count=1")
		cmd.Env = append(os.Environ(), "GOMAXPROCS=8", "BIP39_DEMO_CHILD=1")
		out, err := cmd.CombinedOutput()
		t.Logf("re-executed with GOMAXPROCS=8:\n%s", out)
		if err != nil {
			t.Fatalf("child failed: %v", err)
		}
		return
	}

	saved := cryptoRander
	defer func() { cryptoRander = saved }()

	src := &demoGatedSource{gate1: make(chan struct{}), gate2: make(chan struct{})}
	for i := range src.ent {
		src.ent[i] = 0xA0 + byte(i)*5
	}
	want, err := NewMnemonicByEntropy(src.ent[:], English)
	if err != nil {
		t.Fatal(err)
	}
	cryptoRander = src

	type result struct {
		who string
		got string
		err error
	}
	var (
		wg      sync.WaitGroup
		mu      sync.Mutex
		results []result
	)
	call := func(who string, done chan<- struct{}) {
		wg.Add(1)
		go func() {
			defer wg.Done()
			got, err := NewMnemonic(demoWords, English)
			mu.Lock()
			results = append(results, result{who, got, err})
			mu.Unlock()
			if done != nil {
				close(done)
			}
		}()
	}

	// 1. 64 callers have received their first 8 bytes and are parked inside their second read
	for i := 0; i < demoHolders; i++ {
		call("holder", nil)
	}
	if !demoWaitFor(func() bool { return atomic.LoadInt32(&src.second) == demoHolders }, 20*time.Second) {
		close(src.gate2)
		close(src.gate1)
		t.Fatalf("only %d of %d callers got inside the source within 20 s (GOMAXPROCS=%d)", atomic.LoadInt32(&src.second), demoHolders, runtime.GOMAXPROCS(0))
	}

	// 2. caller X: gets its first 8 bytes and is parked in its second read too
	//    (or waits outside the source until a holder has finished - also fine)
	call("X", nil)
	xInside := demoWaitFor(func() bool { return atomic.LoadInt32(&src.second) == demoHolders+1 }, time.Second)

	// 3. caller Y: is served completely while X is parked (or waits outside as well)
	yDone := make(chan struct{})
	call("Y", yDone)
	yReturned := false
	select {
	case <-yDone:
		yReturned = true
	case <-time.After(time.Second):
	}
	t.Logf("GOMAXPROCS=%d: X inside the source while 64 calls are in flight: %v; Y completed meanwhile: %v", runtime.GOMAXPROCS(0), xInside, yReturned)

	// 4. now X receives its second fragment, then the holders do
	close(src.gate2)
	close(src.gate1)
	finished := make(chan struct{})
	go func() { wg.Wait(); close(finished) }()
	select {
	case <-finished:
	case <-time.After(30 * time.Second):
		t.Fatal("calls did not finish within 30 s after all gates were opened")
	}

	if n := atomic.LoadInt32(&src.strange); n != 0 {
		t.Errorf("%d reads with an unexpected buffer length", n)
	}
	if f, s := atomic.LoadInt32(&src.first), atomic.LoadInt32(&src.second); f != demoHolders+2 || s != demoHolders+2 {
		t.Errorf("source saw %d first and %d second reads, want %d each", f, s, demoHolders+2)
	}
	if len(results) != demoHolders+2 {
		t.Errorf("%d results, want %d", len(results), demoHolders+2)
	}
	zeroed := src.ent
	for i := 0; i < demoFirst; i++ {
		zeroed[i] = 0
	}
	zeroHead, _ := NewMnemonicByEntropy(zeroed[:], English)
	for _, r := range results {
		if r.err != nil || r.got != want {
			t.Errorf("C06 VIOLATED: caller %s was delivered % x but got (%q, %v), want (%q, nil)", r.who, src.ent[:], r.got, r.err, want)
			if r.got == zeroHead {
				t.Logf("  ... that is the encoding of 8 zero bytes followed by the second fragment: the first fragment was wiped while the caller was parked")
			}
		}
	}
}
