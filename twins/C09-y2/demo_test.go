package bip39

// Demonstration for twin pair 2 of property C09.
//
// Every rejected size must be reported with the documented sentinel of the
// function that was called: ErrEntropyLen from NewMnemonicByEntropy and
// ErrWordLen from NewMnemonic - whatever the reason for the rejection is
// (too small, too large, not a multiple of 4 resp. 3, negative, zero, huge).
//
//	go test -count=1 -run 'TestDemoC09' .

import (
	"errors"
	"testing"
)

// demoSource delivers an endless deterministic stream and counts the bytes
// it handed out.
type demoSource struct{ delivered int }

func (c *demoSource) Read(p []byte) (int, error) {
	for i := range p {
		p[i] = byte(c.delivered*29 + 3)
		c.delivered++
	}
	return len(p), nil
}

func TestDemoC09WordCountSentinel(t *testing.T) {
	valid := map[int]bool{12: true, 15: true, 18: true, 21: true, 24: true}
	counts := []int{
		-1 << 63, -1<<63 + 1, -1<<63 + 2, -1 << 62, -1 << 32, -300, -24, -12, -4, -3, -2, -1,
		48, 96, 99, 120, 255, 256, 258, 268, 1 << 16, 1 << 31, 1 << 32, 3 << 60,
		864691128455135244, 1<<63 - 3, 1<<63 - 2, 1<<63 - 1,
	}
	for n := 0; n <= 40; n++ {
		counts = append(counts, n)
	}
	saved := cryptoRander
	defer func() { cryptoRander = saved }()
	for _, lg := range []Language{English, Japanese, ChineseSimplified, Portuguese, 99} {
		for _, n := range counts {
			src := &demoSource{}
			cryptoRander = src
			got, err := NewMnemonic(n, lg)
			cryptoRander = saved
			if valid[n] {
				if err != nil || got == "" {
					t.Errorf("NewMnemonic(%d, Language(%d)) = %q, %v; want a mnemonic and a nil error", n, lg, got, err)
				} else if src.delivered != n/3*4 {
					t.Errorf("NewMnemonic(%d, Language(%d)) drew %d bytes, want %d", n, lg, src.delivered, n/3*4)
				}
				continue
			}
			if got != "" {
				t.Errorf("NewMnemonic(%d, Language(%d)) = %q; want \"\"", n, lg, got)
			}
			if !errors.Is(err, ErrWordLen) {
				t.Errorf("NewMnemonic(%d, Language(%d)) error = %v; want an error matching ErrWordLen (%v)", n, lg, err, ErrWordLen)
			}
			if src.delivered != 0 {
				t.Errorf("NewMnemonic(%d, Language(%d)) drew %d bytes from the source before rejecting", n, lg, src.delivered)
			}
		}
	}
}

func TestDemoC09EntropyLenSentinel(t *testing.T) {
	valid := map[int]bool{16: true, 20: true, 24: true, 28: true, 32: true}
	lens := []int{-1} // the nil slice
	for n := 0; n <= 72; n++ {
		lens = append(lens, n)
	}
	lens = append(lens, 96, 128, 255, 256, 272, 1024, 1<<16 + 16)
	for _, lg := range []Language{English, Japanese, ChineseSimplified, Portuguese, 99} {
		for _, n := range lens {
			var entropy []byte
			if n >= 0 {
				entropy = make([]byte, n)
				for i := range entropy {
					entropy[i] = byte(i*7 + n)
				}
			}
			got, err := NewMnemonicByEntropy(entropy, lg)
			if valid[n] {
				if err != nil || got == "" {
					t.Errorf("NewMnemonicByEntropy(%d bytes, Language(%d)) = %q, %v; want a mnemonic and a nil error", n, lg, got, err)
				}
				continue
			}
			if got != "" {
				t.Errorf("NewMnemonicByEntropy(%d bytes, Language(%d)) = %q; want \"\"", n, lg, got)
			}
			if !errors.Is(err, ErrEntropyLen) {
				t.Errorf("NewMnemonicByEntropy(%d bytes, Language(%d)) error = %v; want an error matching ErrEntropyLen (%v)", n, lg, err, ErrEntropyLen)
			}
		}
	}
}
