package bip39_test

// Demonstration for C17, pair 1 (streaming line splitter in update-wordlist).
//
// Builds the tool with -tags verif, serves it word files from a scratch
// directory (BIP39_VERIF_UPSTREAM), lets the hook deliver the bodies in short
// reads (BIP39_VERIF_FRAG) and checks that every generated Go file parses,
// declares the right variable and lists exactly the non-empty input lines.

import (
	"bytes"
	"fmt"
	"go/ast"
	"go/parser"
	"go/token"
	"io/ioutil"
	"os"
	"os/exec"
	"path/filepath"
	"strconv"
	"strings"
	"testing"

	"github.com/islishude/bip39/internal/wordlist"
)

var demoTargets = []struct {
	file, variable string
	canonical      []string
}{
	{"chinese_simplified", "ChineseSimplified", wordlist.ChineseSimplified},
	{"chinese_traditional", "ChineseTraditional", wordlist.ChineseTraditional},
	{"czech", "Czech", wordlist.Czech},
	{"english", "English", wordlist.English},
	{"french", "French", wordlist.French},
	{"italian", "Italian", wordlist.Italian},
	{"japanese", "Japanese", wordlist.Japanese},
	{"korean", "Korean", wordlist.Korean},
	{"portuguese", "Portuguese", wordlist.Portuguese},
	{"spanish", "Spanish", wordlist.Spanish},
}

func demoBuildTool(t *testing.T) string {
	t.Helper()
	bin := filepath.Join(t.TempDir(), "update-wordlist")
	cmd := exec.Command("go", "build", "-tags", "verif", "-o", bin, "./update-wordlist")
	if out, err := cmd.CombinedOutput(); err != nil {
		t.Fatalf("building the tool: %v\n%s", err, out)
	}
	return bin
}

// demoRun writes the ten bodies below a fresh upstream directory, runs the tool
// in workdir (which holds internal/wordlist) and returns nothing: the caller
// inspects workdir afterwards.
func demoRun(t *testing.T, bin, workdir string, bodies map[string]string, frag string) {
	t.Helper()
	up := t.TempDir()
	dir := filepath.Join(up, "bitcoin", "bips", "master", "bip-0039")
	if err := os.MkdirAll(dir, 0777); err != nil {
		t.Fatal(err)
	}
	for name, body := range bodies {
		if err := ioutil.WriteFile(filepath.Join(dir, name+".txt"), []byte(body), 0666); err != nil {
			t.Fatal(err)
		}
	}
	if err := os.MkdirAll(filepath.Join(workdir, "internal", "wordlist"), 0777); err != nil {
		t.Fatal(err)
	}
	cmd := exec.Command(bin)
	cmd.Dir = workdir
	cmd.Env = append(os.Environ(), "BIP39_VERIF_UPSTREAM="+up)
	if frag != "" {
		cmd.Env = append(cmd.Env, "BIP39_VERIF_FRAG="+frag)
	}
	if out, err := cmd.CombinedOutput(); err != nil {
		t.Fatalf("tool failed: %v\n%s", err, out)
	}
}

// demoParse returns the variable name and the list found in a generated file.
func demoParse(path string) (string, []string, error) {
	src, err := ioutil.ReadFile(path)
	if err != nil {
		return "", nil, err
	}
	f, err := parser.ParseFile(token.NewFileSet(), path, src, 0)
	if err != nil {
		return "", nil, fmt.Errorf("generated file does not compile: %v", err)
	}
	if f.Name.Name != "wordlist" || len(f.Decls) != 1 {
		return "", nil, fmt.Errorf("unexpected file layout in %s", path)
	}
	gd, ok := f.Decls[0].(*ast.GenDecl)
	if !ok || gd.Tok != token.VAR || len(gd.Specs) != 1 {
		return "", nil, fmt.Errorf("unexpected declaration in %s", path)
	}
	vs := gd.Specs[0].(*ast.ValueSpec)
	if len(vs.Names) != 1 || len(vs.Values) != 1 {
		return "", nil, fmt.Errorf("unexpected var spec in %s", path)
	}
	cl, ok := vs.Values[0].(*ast.CompositeLit)
	if !ok {
		return "", nil, fmt.Errorf("value is no composite literal in %s", path)
	}
	words := []string{}
	for _, e := range cl.Elts {
		bl, ok := e.(*ast.BasicLit)
		if !ok || bl.Kind != token.STRING {
			return "", nil, fmt.Errorf("non-string element in %s", path)
		}
		w, err := strconv.Unquote(bl.Value)
		if err != nil {
			return "", nil, err
		}
		words = append(words, w)
	}
	return vs.Names[0].Name, words, nil
}

func demoNonEmptyLines(body string) []string {
	want := []string{}
	for _, l := range strings.Split(body, "\n") {
		if l != "" {
			want = append(want, l)
		}
	}
	return want
}

func demoCheck(t *testing.T, workdir string, bodies map[string]string, label string) {
	t.Helper()
	for _, tg := range demoTargets {
		path := filepath.Join(workdir, "internal", "wordlist", tg.file+".go")
		name, got, err := demoParse(path)
		if err != nil {
			t.Errorf("%s: %s: %v", label, tg.file, err)
			continue
		}
		if name != tg.variable {
			t.Errorf("%s: %s: variable %s, want %s", label, tg.file, name, tg.variable)
		}
		want := demoNonEmptyLines(bodies[tg.file])
		if len(got) != len(want) {
			t.Errorf("%s: %s: %d words generated, %d non-empty lines in the input", label, tg.file, len(got), len(want))
			continue
		}
		for i := range want {
			if got[i] != want[i] {
				t.Errorf("%s: %s: word %d is %q, input line is %q", label, tg.file, i, got[i], want[i])
				break
			}
		}
	}
}

func demoCanonicalBodies() map[string]string {
	bodies := map[string]string{}
	for _, tg := range demoTargets {
		bodies[tg.file] = strings.Join(tg.canonical, "\n") + "\n"
	}
	return bodies
}

func TestDemoC17StreamingSplitter(t *testing.T) {
	bin := demoBuildTool(t)

	// the canonical lists, delivered whole and in seeded short reads
	canon := demoCanonicalBodies()
	for _, frag := range []string{"", "1", "2", "3"} {
		work := t.TempDir()
		demoRun(t, bin, work, canon, frag)
		demoCheck(t, work, canon, "canonical lists, BIP39_VERIF_FRAG="+strconv.Quote(frag))
	}

	// odd shapes: blank lines, no trailing newline, one word, nothing at all
	odd := map[string]string{}
	for i, tg := range demoTargets {
		var b bytes.Buffer
		for j, w := range tg.canonical[:40+i] {
			b.WriteString(w)
			b.WriteString("\n")
			if j%7 == i%7 {
				b.WriteString("\n")
			}
		}
		b.WriteString(tg.canonical[2047]) // no trailing newline
		odd[tg.file] = b.String()
	}
	odd["english"] = "zoo"
	odd["czech"] = ""
	odd["french"] = "\n\n"
	for _, frag := range []string{"", "7"} {
		work := t.TempDir()
		demoRun(t, bin, work, odd, frag)
		demoCheck(t, work, odd, "odd shapes, BIP39_VERIF_FRAG="+strconv.Quote(frag))
	}
}
