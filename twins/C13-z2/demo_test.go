package bip39_test

// Demonstration for twin pair 2 (property C13: the outcome of a call is a
// function of its arguments, whatever calls or failures came before).
//
// A valid mnemonic is checked, then a mnemonic with an unknown word somewhere
// after the first position is checked (which must fail), then the valid one is
// checked again: it must still be valid, in every language and for every
// position of the unknown word.

import (
	"strings"
	"testing"

	"github.com/islishude/bip39"
)

func TestDemoCheckAfterUnknownWord(t *testing.T) {
	langs := []bip39.Language{
		bip39.ChineseSimplified, bip39.ChineseTraditional, bip39.English,
		bip39.French, bip39.Italian, bip39.Japanese, bip39.Korean,
		bip39.Spanish, bip39.Czech, bip39.Portuguese,
	}
	for li, lang := range langs {
		for _, n := range []int{16, 20, 24, 28, 32} {
			entropy := make([]byte, n)
			for i := range entropy {
				entropy[i] = byte(0x3C ^ (i+li)*29)
			}
			valid, err := bip39.NewMnemonicByEntropy(entropy, lang)
			if err != nil {
				t.Fatal(err)
			}
			if err := bip39.CheckMnemonic(valid, lang); err != nil {
				t.Fatalf("lang %d, %d bytes: fresh mnemonic rejected: %v", lang, n, err)
			}

			sep := " "
			if lang == bip39.Japanese {
				sep = "　"
			}
			words := strings.Split(valid, sep)
			for pos := range words {
				broken := append([]string(nil), words...)
				broken[pos] = "qqqq"
				if err := bip39.CheckMnemonic(strings.Join(broken, sep), lang); err == nil {
					t.Fatalf("lang %d: mnemonic with unknown word at %d accepted", lang, pos)
				}
				if err := bip39.CheckMnemonic(valid, lang); err != nil {
					t.Errorf("lang %d, %d words: valid mnemonic rejected after a failed check (unknown word at position %d): %v",
						lang, len(words), pos, err)
				}
				if !bip39.IsMnemonicValid(valid, lang) {
					t.Errorf("lang %d, %d words: IsMnemonicValid false for a valid mnemonic after a failed check (unknown word at position %d)",
						lang, len(words), pos)
				}
			}
		}
	}
}

// The same through two fixed English phrases, for reading.
func TestDemoCheckAfterUnknownWordEnglish(t *testing.T) {
	const valid = "check fiscal fit sword unlock rough lottery tool sting pluck bulb random"
	const typo = "check fiscal fit sword unlock rouhg lottery tool sting pluck bulb random"
	if err := bip39.CheckMnemonic(valid, bip39.English); err != nil {
		t.Fatalf("before: %v", err)
	}
	if err := bip39.CheckMnemonic(typo, bip39.English); err == nil {
		t.Fatal("typo accepted")
	}
	if err := bip39.CheckMnemonic(valid, bip39.English); err != nil {
		t.Errorf("same valid mnemonic after a failed check: %v", err)
	}
}
