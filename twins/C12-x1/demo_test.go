package bip39

// Demonstration for twin pair 1 (property C12).
//
// Every trial is a fresh process (the test binary re-executes itself), so the
// lazy per-language tables are cold each time. In the child a few goroutines
// keep encoding with a Language value the package does not know (it has always
// fallen back to the English list) while the main goroutine uses the ten real
// languages for the first time, one after the other. All calls must return
// what they return when run alone, and the child must finish.
//
//	go test -count=1 -run 'TestColdStartWithUnsupportedLanguage' .
//
// (-race is optional; the failure is a deadlock, not a data race.)

import (
	"bytes"
	"fmt"
	"os"
	"os/exec"
	"runtime"
	"sync"
	"sync/atomic"
	"testing"
	"time"
)

const (
	demoChildEnv   = "BIP39_DEMO_C12_CHILD"
	demoTrials     = 40
	demoReaders    = 8
	demoChildLimit = 5 * time.Second
)

// BIP39 reference vector: sixteen bytes 0x80, English.
const demoEnglish = "letter advice cage absurd amount doctor acoustic avoid letter advice cage above"

var demoLanguages = []Language{
	Japanese, Korean, Spanish, ChineseSimplified, ChineseTraditional,
	French, Italian, Czech, Portuguese, English,
}

func TestColdStartWithUnsupportedLanguage(t *testing.T) {
	if os.Getenv(demoChildEnv) != "" {
		demoChild(t)
		return
	}
	for trial := 0; trial < demoTrials; trial++ {
		cmd := exec.Command(os.Args[0], "-test.run=^TestColdStartWithUnsupportedLanguage$", "-test.count=1")
		cmd.Env = append(os.Environ(), fmt.Sprintf("%s=%d", demoChildEnv, trial+1))
		var out bytes.Buffer
		cmd.Stdout, cmd.Stderr = &out, &out
		if err := cmd.Start(); err != nil {
			t.Fatal(err)
		}
		done := make(chan error, 1)
		go func() { done <- cmd.Wait() }()
		select {
		case err := <-done:
			if err != nil {
				t.Fatalf("trial %d: cold-start process failed: %v\n%s", trial, err, out.String())
			}
		case <-time.After(demoChildLimit + 5*time.Second):
			_ = cmd.Process.Kill()
			t.Fatalf("trial %d: cold-start process hung\n%s", trial, out.String())
		}
	}
}

func demoChild(t *testing.T) {
	var seed int
	fmt.Sscan(os.Getenv(demoChildEnv), &seed)

	watchdog := time.AfterFunc(demoChildLimit, func() {
		buf := make([]byte, 1<<14)
		buf = buf[:runtime.Stack(buf, true)]
		fmt.Fprintf(os.Stderr, "DEADLOCK: calls still blocked after %v\n%s\n", demoChildLimit, buf)
		os.Exit(3)
	})
	defer watchdog.Stop()

	ent := bytes.Repeat([]byte{0x80}, 16)
	var stop int32
	var wg sync.WaitGroup
	errs := make(chan string, demoReaders+1)

	// Readers: an unsupported Language value, served from the English list.
	for r := 0; r < demoReaders; r++ {
		wg.Add(1)
		go func(lang Language) {
			defer wg.Done()
			for atomic.LoadInt32(&stop) == 0 {
				got, err := NewMnemonicByEntropy(ent, lang)
				if err != nil || got != demoEnglish {
					errs <- fmt.Sprintf("NewMnemonicByEntropy(0x80.., %d) = %q, %v", int(lang), got, err)
					return
				}
			}
		}(Language(100 + r))
	}

	// Writers: first use of every real language while the readers are busy.
	for i := range demoLanguages {
		lang := demoLanguages[(i+seed)%len(demoLanguages)]
		time.Sleep(time.Duration(50+37*((seed+i)%7)) * time.Microsecond)
		m, err := NewMnemonicByEntropy(ent, lang)
		if err != nil {
			errs <- fmt.Sprintf("NewMnemonicByEntropy(0x80.., %v): %v", lang, err)
			break
		}
		if err := CheckMnemonic(m, lang); err != nil {
			errs <- fmt.Sprintf("CheckMnemonic(%q, %v): %v", m, lang, err)
			break
		}
	}
	atomic.StoreInt32(&stop, 1)
	wg.Wait()
	close(errs)
	for e := range errs {
		t.Error(e)
	}
}
