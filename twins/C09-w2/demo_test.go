package bip39

// Demonstration for C09 (pair 2): the accepted sizes are exactly 12/15/18/21/24
// words and 16/20/24/28/32 bytes. Sizes that only look supported after being
// narrowed to 8, 16 or 32 bits (780 words, -756 words, 1040 bytes, ...) must be
// rejected with the sentinel errors and without touching the randomness
// source, in every language including values outside the ten constants.
//
// Run: go test -count=1 -run 'TestDemoC09' .

import (
	"bytes"
	"errors"
	"fmt"
	"math"
	"strings"
	"testing"
)

// demoSource is a deterministic randomness source that counts what it hands out.
type demoSource struct {
	next  byte
	calls int
	bytes int
}

func (s *demoSource) Read(p []byte) (int, error) {
	s.calls++
	for i := range p {
		s.next = s.next*167 + 13
		p[i] = s.next
	}
	s.bytes += len(p)
	return len(p), nil
}

func demoLanguages() []Language {
	one := 1
	langs := []Language{
		ChineseSimplified, ChineseTraditional, English, French, Italian,
		Japanese, Korean, Spanish, Czech, Portuguese,
	}
	return append(langs,
		Language(-1), Language(10), Language(11), Language(-10), Language(255), Language(256),
		Language(one<<31), Language(one<<32), Language(one<<40), Language(one<<40+2),
		Language(math.MaxInt), Language(math.MinInt))
}

func demoCall(f func() (string, error)) (got string, err error, panicked interface{}) {
	defer func() { panicked = recover() }()
	got, err = f()
	return
}

func demoWordCount(m string) int {
	if m == "" {
		return 0
	}
	return len(strings.FieldsFunc(m, func(r rune) bool { return r == ' ' || r == '　' }))
}

func TestDemoC09WordCounts(t *testing.T) {
	one := 1
	bad := []int{
		math.MinInt, math.MinInt + 1, -one << 32, -24, -21, -18, -15, -12, -9, -3, -2, -1,
		0, 1, 2, 3, 6, 9, 10, 11, 13, 14, 16, 17, 19, 20, 22, 23, 25, 26, 27, 30, 33, 36, 48, 96,
		255, 256, 268, 780, 1<<16 + 12, one<<32 + 12, 3*(one<<32) + 12, 3*(one<<59) + 12,
		math.MaxInt - 1, math.MaxInt,
	}
	good := []int{12, 15, 18, 21, 24}
	for n := -3000; n <= 3000; n++ {
		if n < 12 || n > 24 || n%3 != 0 {
			bad = append(bad, n)
		}
	}
	for _, wrap := range []int{one << 8, one << 16, one << 31, one << 32, one << 62} {
		for _, g := range good {
			// the word count whose number of checksum bits (n/3) is g/3 modulo wrap
			bad = append(bad, 3*wrap+g, -3*wrap+g, 6*wrap+g)
			// and the one whose value itself is g modulo wrap
			bad = append(bad, wrap+g, -wrap+g)
		}
	}

	saved := cryptoRander
	defer func() { cryptoRander = saved }()

	for _, lang := range demoLanguages() {
		for _, n := range bad {
			src := &demoSource{}
			cryptoRander = src
			got, err, p := demoCall(func() (string, error) { return NewMnemonic(n, lang) })
			name := fmt.Sprintf("NewMnemonic(%d, Language(%d))", n, int(lang))
			switch {
			case p != nil:
				t.Errorf("%s panicked: %v", name, p)
			case got != "" || !errors.Is(err, ErrWordLen):
				t.Errorf("%s = (%q, %v), want (\"\", ErrWordLen)", name, got, err)
			}
			if src.calls != 0 || src.bytes != 0 {
				t.Errorf("%s consumed randomness: %d reads, %d bytes", name, src.calls, src.bytes)
			}
		}
		for _, n := range good {
			src := &demoSource{}
			cryptoRander = src
			got, err, p := demoCall(func() (string, error) { return NewMnemonic(n, lang) })
			name := fmt.Sprintf("NewMnemonic(%d, Language(%d))", n, int(lang))
			if p != nil || err != nil || demoWordCount(got) != n {
				t.Errorf("%s = (%q, %v) panic=%v, want %d words and nil error", name, got, err, p, n)
			}
			if src.bytes != n+n/3 {
				t.Errorf("%s consumed %d bytes, want %d", name, src.bytes, n+n/3)
			}
		}
	}
}

func TestDemoC09EntropyLengths(t *testing.T) {
	accepted := map[int]bool{16: true, 20: true, 24: true, 28: true, 32: true}
	lengths := []int{}
	for l := 0; l <= 80; l++ {
		lengths = append(lengths, l)
	}
	for l := 81; l <= 2200; l++ {
		lengths = append(lengths, l)
	}
	for _, g := range []int{16, 20, 24, 28, 32} {
		lengths = append(lengths, 1<<8+g, 4<<8+g, 8<<8+g, 1<<16+g, 4<<16+g)
	}
	lengths = append(lengths, 4096, 1<<16, 1<<20)

	for _, lang := range demoLanguages() {
		// nil is not the same slice as empty, both must be rejected
		got, err, p := demoCall(func() (string, error) { return NewMnemonicByEntropy(nil, lang) })
		if p != nil || got != "" || !errors.Is(err, ErrEntropyLen) {
			t.Errorf("NewMnemonicByEntropy(nil, Language(%d)) = (%q, %v) panic=%v, want (\"\", ErrEntropyLen)", int(lang), got, err, p)
		}
		for _, l := range lengths {
			entropy := make([]byte, l)
			for i := range entropy {
				entropy[i] = byte(i*31 + l)
			}
			before := append([]byte{}, entropy...)
			got, err, p := demoCall(func() (string, error) { return NewMnemonicByEntropy(entropy, lang) })
			name := fmt.Sprintf("NewMnemonicByEntropy(<%d bytes>, Language(%d))", l, int(lang))
			if p != nil {
				t.Errorf("%s panicked: %v", name, p)
			} else if accepted[l] {
				if err != nil || demoWordCount(got) != l/4*3 {
					t.Errorf("%s = (%q, %v), want %d words and nil error", name, got, err, l/4*3)
				}
			} else if got != "" || !errors.Is(err, ErrEntropyLen) {
				t.Errorf("%s = (%q, %v), want (\"\", ErrEntropyLen)", name, got, err)
			}
			if !bytes.Equal(before, entropy) {
				t.Errorf("%s modified the caller's entropy", name)
			}
		}
	}
}
