package bip39_test

import (
	"bytes"
	"testing"

	"github.com/islishude/bip39"
)

// The entropy handed to NewMnemonicByEntropy is often a window into a larger
// buffer (a key file, a 64 byte master secret, a pool of pre-drawn bytes). The
// call must leave ALL of the caller's memory alone: the bytes inside the
// window, and also the bytes behind it, which the slice's capacity makes
// reachable. The result must not depend on that capacity either.
func TestDemoEntropyWindowIsReadOnly(t *testing.T) {
	backing := make([]byte, 64)
	for i := range backing {
		backing[i] = byte(0xA0 + i)
	}
	snapshot := append([]byte(nil), backing...)

	for _, n := range []int{16, 20, 24, 28, 32} {
		for lang := bip39.ChineseSimplified; lang <= bip39.Portuguese; lang++ {
			window := backing[:n] // len n, cap 64
			got, err := bip39.NewMnemonicByEntropy(window, lang)
			if err != nil {
				t.Fatalf("n=%d %v: %v", n, lang, err)
			}
			if !bytes.Equal(backing, snapshot) {
				for i := range backing {
					if backing[i] != snapshot[i] {
						t.Fatalf("n=%d lang=%d: caller's memory modified: byte %d behind a %d byte window was %#02x, now %#02x",
							n, int(lang), i, n, snapshot[i], backing[i])
					}
				}
			}

			// same bytes in a slice without spare capacity: same sentence
			exact := make([]byte, n)
			copy(exact, snapshot[:n])
			want, err := bip39.NewMnemonicByEntropy(exact, lang)
			if err != nil {
				t.Fatalf("n=%d %v: %v", n, lang, err)
			}
			if got != want {
				t.Fatalf("n=%d lang=%d: result depends on the capacity of the entropy slice:\n cap %d: %q\n cap %d: %q",
					n, int(lang), cap(window), got, cap(exact), want)
			}
		}
	}
}
