package bip39_test

// Demonstration for C12 (pair 1): concurrent FIRST use of the lazily built
// lookup tables, from a fresh process, must be race-free and must give the
// same answers as sequential use.
//
// The test re-executes its own test binary several times, so that every round
// starts in a process that has not used the package yet. In each such child
// process, for every language in turn, a group of goroutines is released at
// (almost) the same moment - slightly staggered, so that some of them arrive
// while the first one is still building the table - and calls the exported
// API. Every answer is then compared with the answer that the same call gives
// sequentially afterwards.
//
// Run with -race (see RUN.txt): the race detector then reports the unordered
// accesses deterministically. Without -race the test still fails on the bad
// twin most of the time (wrong answers, or the runtime's "concurrent map read
// and map write" abort), but that depends on timing.

import (
	"bytes"
	"fmt"
	"os"
	"os/exec"
	"strconv"
	"strings"
	"sync"
	"testing"
	"time"

	"github.com/islishude/bip39"
)

const demoC12ChildEnv = "BIP39_DEMO_C12_CHILD"

var demoC12Langs = []bip39.Language{
	bip39.ChineseSimplified, bip39.ChineseTraditional, bip39.English,
	bip39.French, bip39.Italian, bip39.Japanese, bip39.Korean,
	bip39.Spanish, bip39.Czech, bip39.Portuguese,
}

func TestDemoC12ColdStart(t *testing.T) {
	if v := os.Getenv(demoC12ChildEnv); v != "" {
		round, _ := strconv.Atoi(v)
		demoC12Child(t, round)
		return
	}
	exe, err := os.Executable()
	if err != nil {
		t.Fatal(err)
	}
	const rounds = 8
	for round := 1; round <= rounds; round++ {
		cmd := exec.Command(exe, "-test.run=^TestDemoC12ColdStart$", "-test.count=1")
		cmd.Env = append(os.Environ(), demoC12ChildEnv+"="+strconv.Itoa(round))
		out, err := cmd.CombinedOutput()
		if err != nil {
			if len(out) > 6000 {
				out = append(out[:6000:6000], []byte("\n[...]")...)
			}
			t.Fatalf("cold-start round %d failed: %v\n%s", round, err, out)
		}
	}
}

// one API call and its printable outcome
type demoC12Call struct {
	name  string
	heavy bool // only run by some of the workers
	run   func() string
}

func demoC12Calls(lang bip39.Language, valid, broken string, ent []byte) []demoC12Call {
	unknown := valid + " zzzz"
	unknown = unknown[strings.IndexAny(unknown, " 　")+1:]
	if lang == bip39.Japanese {
		unknown = unknown[2:] // rest of the ideographic space
	}
	return []demoC12Call{
		{"CheckMnemonic(valid)", false, func() string { return fmt.Sprint(bip39.CheckMnemonic(valid, lang)) }},
		{"IsMnemonicValid(valid)", false, func() string { return fmt.Sprint(bip39.IsMnemonicValid(valid, lang)) }},
		{"CheckMnemonic(swapped)", false, func() string { return fmt.Sprint(bip39.CheckMnemonic(broken, lang)) }},
		{"CheckMnemonic(unknown word)", false, func() string { return fmt.Sprint(bip39.CheckMnemonic(unknown, lang)) }},
		{"MnemonicToSeed", true, func() string { return fmt.Sprintf("%x", bip39.MnemonicToSeed(valid, "demo")) }},
		{"NewMnemonicByEntropy", false, func() string {
			m, err := bip39.NewMnemonicByEntropy(ent, lang)
			return fmt.Sprint(m, err)
		}},
		{"NewMnemonic", false, func() string {
			m, err := bip39.NewMnemonic(12, lang)
			if err != nil {
				return "error: " + err.Error()
			}
			sep := " "
			if lang == bip39.Japanese {
				sep = "　"
			}
			return fmt.Sprint(len(strings.Split(m, sep)), " words")
		}},
		{"String", false, func() string { return lang.String() }},
	}
}

func demoC12Child(t *testing.T, round int) {
	const workers = 16

	type probe struct {
		lang          bip39.Language
		valid, broken string
		ent           []byte
	}
	var probes []probe
	for i := range demoC12Langs {
		// every round visits the languages in another order
		lang := demoC12Langs[(i*3+round)%len(demoC12Langs)]
		ent := bytes.Repeat([]byte{byte(0x11 + 7*int(lang) + round)}, 16+4*(int(lang)%5))
		// NewMnemonicByEntropy does not use the lookup tables
		valid, err := bip39.NewMnemonicByEntropy(ent, lang)
		if err != nil {
			t.Fatal(err)
		}
		words := strings.Fields(valid)
		words[0], words[1] = words[1], words[0]
		probes = append(probes, probe{lang, valid, strings.Join(words, " "), ent})
	}

	got := make([][][]string, len(probes)) // [probe][worker][call]
	for p, pr := range probes {
		got[p] = make([][]string, workers)
		start := make(chan struct{})
		var wg sync.WaitGroup
		for w := 0; w < workers; w++ {
			wg.Add(1)
			go func(w int) {
				defer wg.Done()
				calls := demoC12Calls(pr.lang, pr.valid, pr.broken, pr.ent)
				res := make([]string, len(calls))
				<-start
				// stagger the arrivals over the time it takes to build a table
				for end := time.Now().Add(time.Duration(w) * 8 * time.Microsecond); time.Now().Before(end); {
				}
				for c, call := range calls {
					if !call.heavy || w%8 == 3 {
						res[c] = call.run()
					}
				}
				got[p][w] = res
			}(w)
		}
		close(start)
		wg.Wait()
	}

	// the same calls, alone
	for p, pr := range probes {
		calls := demoC12Calls(pr.lang, pr.valid, pr.broken, pr.ent)
		for c, call := range calls {
			want := call.run()
			for w := 0; w < workers; w++ {
				if call.heavy && got[p][w][c] == "" {
					continue
				}
				if got[p][w][c] != want {
					t.Errorf("%v %s: worker %d got %q concurrently, but %q when run alone",
						pr.lang, call.name, w, got[p][w][c], want)
				}
			}
		}
	}
}
