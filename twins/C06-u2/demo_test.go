package bip39

import (
	"errors"
	"io"
	"testing"
)

// demoDying delivers alive bytes (all equal to fill), in reads of at most
// chunk bytes, and then fails with err for ever.
type demoDying struct {
	alive int
	chunk int
	fill  byte
	err   error
}

func (d *demoDying) Read(p []byte) (int, error) {
	if d.alive == 0 {
		return 0, d.err
	}
	n := len(p)
	if n > d.alive {
		n = d.alive
	}
	if n > d.chunk {
		n = d.chunk
	}
	for i := 0; i < n; i++ {
		p[i] = d.fill
	}
	d.alive -= n
	return n, nil
}

// demoHealthy delivers 1,2,3,... in reads of at most chunk bytes and counts
// what has been taken from it.
type demoHealthy struct {
	chunk int
	next  byte
	taken int
}

func (h *demoHealthy) Read(p []byte) (int, error) {
	n := len(p)
	if n > h.chunk {
		n = h.chunk
	}
	for i := 0; i < n; i++ {
		h.next++
		p[i] = h.next
	}
	h.taken += n
	return n, nil
}

func demoWith(src io.Reader, words int, lang Language) (string, error) {
	saved := cryptoRander
	cryptoRander = src
	defer func() { cryptoRander = saved }()
	return NewMnemonic(words, lang)
}

// TestDemoC06AfterFailure: a call that failed after k bytes must leave
// nothing behind: the next call, on a healthy source, returns the encoding
// of the first 4n/3 bytes that this source delivers and takes exactly those.
func TestDemoC06AfterFailure(t *testing.T) {
	errDevice := errors.New("entropy device failed")
	sizes := []int{12, 15, 18, 21, 24}
	for _, failing := range sizes {
		for k := 0; k < failing+failing/3; k++ {
			for _, kind := range []error{io.EOF, errDevice} {
				for _, chunk := range []int{1, 5, 64} {
					// 1. the failing call
					got, err := demoWith(&demoDying{alive: k, chunk: chunk, fill: 0xEE, err: kind}, failing, English)
					if err == nil || got != "" {
						t.Fatalf("failing call n=%d k=%d: (%q, %v), want (\"\", error)", failing, k, got, err)
					}
					// 2. the next call, any size, healthy source
					for _, words := range sizes {
						need := words + words/3
						ent := make([]byte, need)
						for i := range ent {
							ent[i] = byte(i + 1)
						}
						want, _ := NewMnemonicByEntropy(ent, English)
						src := &demoHealthy{chunk: chunk}
						got, err := demoWith(src, words, English)
						if err != nil || got != want || src.taken != need {
							t.Errorf("after a %d-word call that failed (%v) at byte %d (reads of <=%d): NewMnemonic(%d) = (%q, %v) taking %d bytes from its source; want (%q, nil) taking %d",
								failing, kind, k, chunk, words, got, err, src.taken, want, need)
						}
						// put the process back into the same state for the next size
						if words != sizes[len(sizes)-1] {
							_, _ = demoWith(&demoDying{alive: k, chunk: chunk, fill: 0xEE, err: kind}, failing, English)
						}
					}
				}
			}
		}
	}
}

// TestDemoC06FailureAfterFailure: error kinds do not depend on history.
func TestDemoC06FailureAfterFailure(t *testing.T) {
	_, _ = demoWith(&demoDying{alive: 7, chunk: 7, fill: 0xEE, err: io.EOF}, 12, English)
	got, err := demoWith(&demoDying{alive: 0, chunk: 1, err: io.EOF}, 12, English)
	if got != "" || err != io.EOF {
		t.Errorf("empty source after a failed call: (%q, %v), want (\"\", EOF)", got, err)
	}
}
