//go:build verif

package main

// Demonstration for twin pair 2 (property C17).
//
// Upstream lists that are longer than the canonical ones (the words of the
// committed internal/wordlist/*.go, repeated until each file is well over
// 64 KiB) are served through the verif hook, with and without a Content-Length
// header (BIP39_VERIF_NOLEN) and with and without short reads (BIP39_VERIF_FRAG).
// (The hook's file transport reports resp.ContentLength == -1 for every
// non-empty body, header or not, as a gzip-encoded reply from the real
// upstream does.)
// The tool is run in a child process (this test binary re-executed, so that the
// hook's init sees the environment) in a scratch directory, and the lists parsed
// from the generated Go files are compared with the input.

import (
	"bytes"
	"fmt"
	"go/ast"
	"go/parser"
	"go/token"
	"io/ioutil"
	"os"
	"os/exec"
	"path/filepath"
	"strconv"
	"strings"
	"testing"
)

const demoChildEnv = "BIP39_DEMO_CHILD"

// TestDemoChild is the child side: it runs the tool itself.
func TestDemoChild(t *testing.T) {
	if os.Getenv(demoChildEnv) == "" {
		t.Skip("helper for TestDemoTwin2")
	}
	main()
}

// demoParse returns the variable name and the elements of the single
// []string composite literal declared in a generated file.
func demoParse(file string) (string, []string, error) {
	fset := token.NewFileSet()
	f, err := parser.ParseFile(fset, file, nil, 0)
	if err != nil {
		return "", nil, err
	}
	var name string
	var words []string
	found := 0
	for _, d := range f.Decls {
		gd, ok := d.(*ast.GenDecl)
		if !ok || gd.Tok != token.VAR {
			continue
		}
		for _, sp := range gd.Specs {
			vs := sp.(*ast.ValueSpec)
			if len(vs.Names) != 1 || len(vs.Values) != 1 {
				return "", nil, fmt.Errorf("%s: unexpected var spec", file)
			}
			cl, ok := vs.Values[0].(*ast.CompositeLit)
			if !ok {
				return "", nil, fmt.Errorf("%s: not a composite literal", file)
			}
			found++
			name = vs.Names[0].Name
			for _, e := range cl.Elts {
				bl, ok := e.(*ast.BasicLit)
				if !ok || bl.Kind != token.STRING {
					return "", nil, fmt.Errorf("%s: non-string element", file)
				}
				s, err := strconv.Unquote(bl.Value)
				if err != nil {
					return "", nil, err
				}
				words = append(words, s)
			}
		}
	}
	if found != 1 {
		return "", nil, fmt.Errorf("%s: %d list variables", file, found)
	}
	return name, words, nil
}

// demoRun serves inputs (language => file content) as the upstream, runs the
// tool with the extra environment and checks every generated list.
func demoRun(t *testing.T, label string, inputs map[string]string, env ...string) {
	t.Helper()
	tmp, err := ioutil.TempDir("", "c17demo")
	if err != nil {
		t.Fatal(err)
	}
	defer os.RemoveAll(tmp)
	up := filepath.Join(tmp, "upstream")
	updir := filepath.Join(up, "bitcoin", "bips", "master", "bip-0039")
	work := filepath.Join(tmp, "work")
	if err := os.MkdirAll(updir, 0777); err != nil {
		t.Fatal(err)
	}
	if err := os.MkdirAll(filepath.Join(work, dirName), 0777); err != nil {
		t.Fatal(err)
	}
	for lang, content := range inputs {
		if err := ioutil.WriteFile(filepath.Join(updir, lang+".txt"), []byte(content), 0666); err != nil {
			t.Fatal(err)
		}
	}
	cmd := exec.Command(os.Args[0], "-test.run=^TestDemoChild$")
	cmd.Dir = work
	for _, kv := range os.Environ() {
		if !strings.HasPrefix(kv, "BIP39_VERIF_") {
			cmd.Env = append(cmd.Env, kv)
		}
	}
	cmd.Env = append(cmd.Env, demoChildEnv+"=1", "BIP39_VERIF_UPSTREAM="+up)
	cmd.Env = append(cmd.Env, env...)
	var out bytes.Buffer
	cmd.Stdout, cmd.Stderr = &out, &out
	if err := cmd.Run(); err != nil {
		t.Errorf("%s: the tool failed: %v\n%s", label, err, out.String())
		return
	}
	for lang, content := range inputs {
		var want []string
		for _, l := range strings.Split(content, "\n") {
			if l != "" {
				want = append(want, l)
			}
		}
		name, got, err := demoParse(filepath.Join(work, dirName, lang+".go"))
		if err != nil {
			t.Errorf("%s: %s: generated file does not parse: %v", label, lang, err)
			continue
		}
		if name != langs[lang] {
			t.Errorf("%s: %s: variable %q, want %q", label, lang, name, langs[lang])
		}
		if len(got) != len(want) {
			t.Errorf("%s: %s: %d words generated, %d non-empty input lines", label, lang, len(got), len(want))
		}
		for i := 0; i < len(got) && i < len(want); i++ {
			if got[i] != want[i] {
				t.Errorf("%s: %s: word %d is %q, input line is %q", label, lang, i, got[i], want[i])
				break
			}
		}
	}
}

// demoCanonical rebuilds the canonical upstream files from the committed lists.
func demoCanonical(t *testing.T) map[string]string {
	t.Helper()
	inputs := map[string]string{}
	for lang, variable := range langs {
		name, words, err := demoParse(filepath.Join("..", "internal", "wordlist", lang+".go"))
		if err != nil {
			t.Fatal(err)
		}
		if name != variable || len(words) != 2048 {
			t.Fatalf("committed list %s: variable %s, %d words", lang, name, len(words))
		}
		inputs[lang] = strings.Join(words, "\n") + "\n"
	}
	return inputs
}

// demoLong repeats every canonical list until the file exceeds min bytes; some
// blank lines are sprinkled in and the last line has no trailing newline.
func demoLong(canonical map[string]string, min int) map[string]string {
	inputs := map[string]string{}
	for lang, content := range canonical {
		var b strings.Builder
		for round := 0; b.Len() <= min; round++ {
			b.WriteString(content)
			if round%2 == 1 {
				b.WriteString("\n")
			}
		}
		inputs[lang] = strings.TrimRight(b.String(), "\n")
	}
	return inputs
}

func TestDemoTwin2(t *testing.T) {
	canonical := demoCanonical(t)
	long := demoLong(canonical, 150<<10)
	demoRun(t, "canonical", canonical)
	demoRun(t, "canonical, no length", canonical, "BIP39_VERIF_NOLEN=1")
	demoRun(t, "canonical, no length, frag", canonical, "BIP39_VERIF_NOLEN=1", "BIP39_VERIF_FRAG=7")
	demoRun(t, "long", long)
	demoRun(t, "long, frag", long, "BIP39_VERIF_FRAG=7")
	demoRun(t, "long, no length", long, "BIP39_VERIF_NOLEN=1")
	demoRun(t, "long, no length, frag", long, "BIP39_VERIF_NOLEN=1", "BIP39_VERIF_FRAG=7")
}
