package bip39

// Demonstration for twin pair 1 (property C12).
//
// Every round starts a FRESH process (the test binary re-executes itself), in
// which many goroutines per language make their first call at the same
// moment, i.e. while the lookup tables are cold or half built (by another
// caller or by a background warmer). Every call must return, and must return
// what the same call returns when it is run alone afterwards.
//
//	go test -count=1 -run 'TestDemoColdStart' .        (also works with -race)

import (
	"bytes"
	"fmt"
	"os"
	"os/exec"
	"runtime"
	"sync"
	"testing"
	"time"
)

const (
	demoChildEnv      = "BIP39_DEMO_C12_CHILD"
	demoRounds        = 12
	demoCallersPerLan = 24
	demoPatience      = 8 * time.Second
)

var demoLanguages = []Language{
	ChineseSimplified, ChineseTraditional, English, French, Italian,
	Japanese, Korean, Spanish, Czech, Portuguese,
}

func TestDemoColdStart(t *testing.T) {
	if os.Getenv(demoChildEnv) != "" {
		demoColdStartChild(t)
		return
	}
	for round := 0; round < demoRounds; round++ {
		cmd := exec.Command(os.Args[0], "-test.run=^TestDemoColdStart$", "-test.count=1", "-test.timeout=120s")
		cmd.Env = append(os.Environ(), demoChildEnv+"=1")
		var out bytes.Buffer
		cmd.Stdout, cmd.Stderr = &out, &out
		if err := cmd.Run(); err != nil {
			t.Fatalf("round %d: fresh process failed: %v\n%s", round, err, out.String())
		}
	}
}

type demoOutcome struct {
	checkGood string // CheckMnemonic on a valid sentence
	checkBad  string // CheckMnemonic on a sentence with a wrong checksum
	valid     bool
	name      string
}

func demoErr(err error) string {
	if err == nil {
		return "<nil>"
	}
	return err.Error()
}

func demoProbe(good, bad string, lan Language) demoOutcome {
	return demoOutcome{
		checkGood: demoErr(CheckMnemonic(good, lan)),
		checkBad:  demoErr(CheckMnemonic(bad, lan)),
		valid:     IsMnemonicValid(good, lan),
		name:      lan.String(),
	}
}

func demoColdStartChild(t *testing.T) {
	// Sentences are produced without touching the lookup tables
	// (NewMnemonicByEntropy only uses the word lists).
	entGood := []byte{0x79, 0x07, 0x9b, 0xf1, 0x65, 0xe2, 0x55, 0x37, 0xe2, 0xdc, 0xe1, 0x59, 0x19, 0x44, 0x0c, 0xc4}
	good := make([]string, len(demoLanguages))
	bad := make([]string, len(demoLanguages))
	for i, lan := range demoLanguages {
		g, err := NewMnemonicByEntropy(entGood, lan)
		if err != nil {
			t.Fatal(err)
		}
		good[i] = g
		// a sentence whose last word is replaced by the first word of the
		// sentence: right vocabulary, (almost certainly) wrong checksum
		words := bytes.Fields([]byte(g))
		words[len(words)-1] = words[0]
		bad[i] = string(bytes.Join(words, []byte(" ")))
	}

	total := len(demoLanguages) * demoCallersPerLan
	results := make([]demoOutcome, total)
	var finished sync.WaitGroup
	var pending int64
	var pmu sync.Mutex
	start := make(chan struct{})
	finished.Add(total)
	pending = int64(total)
	for c := 0; c < demoCallersPerLan; c++ {
		for i := range demoLanguages {
			slot := c*len(demoLanguages) + i
			go func(slot, i int) {
				defer finished.Done()
				<-start
				results[slot] = demoProbe(good[i], bad[i], demoLanguages[i])
				pmu.Lock()
				pending--
				pmu.Unlock()
			}(slot, i)
		}
	}
	runtime.Gosched()
	close(start)

	done := make(chan struct{})
	go func() { finished.Wait(); close(done) }()
	select {
	case <-done:
	case <-time.After(demoPatience):
		pmu.Lock()
		n := pending
		pmu.Unlock()
		buf := make([]byte, 1<<16)
		buf = buf[:runtime.Stack(buf, true)]
		t.Fatalf("C12 violated: %d of %d concurrent first-use callers are still blocked after %v\n%s",
			n, total, demoPatience, demoTrim(buf))
	}

	// the same calls, run alone
	for c := 0; c < demoCallersPerLan; c++ {
		for i, lan := range demoLanguages {
			want := demoProbe(good[i], bad[i], lan)
			if got := results[c*len(demoLanguages)+i]; got != want {
				t.Errorf("C12 violated: %v concurrent cold call returned %+v, alone it returns %+v", lan, got, want)
			}
		}
	}
}

func demoTrim(stack []byte) string {
	const max = 4000
	if len(stack) > max {
		return fmt.Sprintf("%s\n... (%d more bytes of goroutine dump)", stack[:max], len(stack)-max)
	}
	return string(stack)
}
