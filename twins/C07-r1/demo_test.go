package bip39

// Demonstration for twin pair 1 (property C07).
//
// Many more goroutines than GOMAXPROCS call NewMnemonic at the same moment
// while the randomness source is slow (every Read blocks until the test opens
// a gate). Whatever the load, a mnemonic may only ever be built from bytes the
// source actually delivered: while the gate is shut no call can have returned,
// and afterwards every returned mnemonic must be the encoding of one chunk the
// source handed out, each chunk used once.

import (
	"crypto/sha256"
	"encoding/binary"
	"runtime"
	"sync"
	"testing"
	"time"
)

type gatedSource struct {
	gate chan struct{}

	mu        sync.Mutex
	ctr       uint64
	delivered [][]byte
}

func (g *gatedSource) Read(p []byte) (int, error) {
	<-g.gate
	g.mu.Lock()
	defer g.mu.Unlock()
	// unique, reproducible bytes: SHA-256 of a running counter
	for off := 0; off < len(p); {
		var c [8]byte
		binary.BigEndian.PutUint64(c[:], g.ctr)
		g.ctr++
		sum := sha256.Sum256(c[:])
		off += copy(p[off:], sum[:])
	}
	g.delivered = append(g.delivered, append([]byte(nil), p...))
	return len(p), nil
}

func TestDemoC07SaturatedCallersStillUseTheSource(t *testing.T) {
	src := &gatedSource{gate: make(chan struct{})}
	saved := cryptoRander
	cryptoRander = src
	defer func() { cryptoRander = saved }()

	callers := 8*runtime.GOMAXPROCS(0) + 64
	sizes := []int{12, 15, 18, 21, 24}

	type result struct {
		id       int
		mnemonic string
		err      error
		early    bool
	}
	var opened int32
	var openedMu sync.Mutex
	results := make(chan result, callers)
	for i := 0; i < callers; i++ {
		go func(i int) {
			m, err := NewMnemonic(sizes[i%len(sizes)], Language(i%10))
			openedMu.Lock()
			early := opened == 0
			openedMu.Unlock()
			results <- result{i, m, err, early}
		}(i)
	}

	// Give every caller ample time to get as far as it can with the gate shut.
	time.Sleep(1500 * time.Millisecond)
	openedMu.Lock()
	opened = 1
	openedMu.Unlock()
	src.mu.Lock()
	deliveredEarly := len(src.delivered)
	src.mu.Unlock()
	close(src.gate)

	got := make([]result, 0, callers)
	timeout := time.After(30 * time.Second)
	for len(got) < callers {
		select {
		case r := <-results:
			got = append(got, r)
		case <-timeout:
			t.Fatalf("only %d of %d callers returned after the source was released", len(got), callers)
		}
	}

	if deliveredEarly != 0 {
		t.Fatalf("test bug: source delivered %d chunks before the gate opened", deliveredEarly)
	}

	// Index what the source really handed out: encoding -> how many times.
	want := map[string]int{}
	src.mu.Lock()
	chunks := src.delivered
	src.mu.Unlock()
	for _, c := range chunks {
		for lang := Language(0); lang < 10; lang++ {
			m, err := NewMnemonicByEntropy(c, lang)
			if err != nil {
				t.Fatalf("chunk of %d bytes: %v", len(c), err)
			}
			want[m]++
		}
	}

	bad := 0
	complain := func(format string, args ...interface{}) {
		bad++
		if bad <= 5 { // the first few are enough
			t.Errorf(format, args...)
		}
	}
	for _, r := range got {
		if r.err != nil {
			complain("caller %d: unexpected error %v", r.id, r.err)
			continue
		}
		if r.early {
			complain("caller %d returned %q while the source had not delivered a single byte", r.id, r.mnemonic)
			continue
		}
		if want[r.mnemonic] == 0 {
			complain("caller %d: mnemonic %q is not the encoding of any chunk the source delivered", r.id, r.mnemonic)
		}
	}
	if len(chunks) != callers {
		t.Errorf("source was asked for %d chunks by %d callers (every call must draw its own bytes from the source)", len(chunks), callers)
	}
	seen := map[string]bool{}
	for _, r := range got {
		if r.err == nil && seen[r.mnemonic] {
			t.Errorf("mnemonic %q returned twice", r.mnemonic)
		}
		seen[r.mnemonic] = true
	}
	if bad > 0 {
		t.Errorf("%d of %d concurrent calls were not served from the randomness source", bad, callers)
	}
}
