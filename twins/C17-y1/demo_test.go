package bip39_test

// Demonstration for twin pair 1 of C17 (update-wordlist reproduces its input).
//
// The tool is built with -tags verif, so that its fetches are served from a
// local directory (BIP39_VERIF_UPSTREAM), and run in a scratch directory on ten
// made-up upstream lists of letters and combining marks. Every generated file
// must type-check and its list must be exactly the non-empty input lines.
//
//	go test -count=1 -run TestDemoC17Quoting .

import (
	"fmt"
	"go/ast"
	"go/parser"
	"go/token"
	"go/types"
	"os"
	"os/exec"
	"path/filepath"
	"strconv"
	"strings"
	"testing"
)

var demoTargets = map[string]string{
	"chinese_simplified":  "ChineseSimplified",
	"chinese_traditional": "ChineseTraditional",
	"english":             "English",
	"french":              "French",
	"italian":             "Italian",
	"japanese":            "Japanese",
	"korean":              "Korean",
	"spanish":             "Spanish",
	"czech":               "Czech",
	"portuguese":          "Portuguese",
}

// demoInputs returns the raw upstream file per target.
func demoInputs() map[string]string {
	long := strings.Repeat("été", 20000) // one word of 120000 bytes
	return map[string]string{
		// plain ASCII, trailing newline
		"english": "abandon\nability\nable\n",
		// decomposed accents as in the canonical french/spanish lists, no trailing newline
		"french":  "abaisser\nécole\nzoologié",
		"spanish": "ábaco\n\nabdomen\n\n\nzurdo\n\n",
		// words that start with a combining mark, modifier letters
		"czech":      "\u0301abc\n\u030cz\u030c\n\u02b0a\u02bc\nx\u02b0\n",
		"portuguese": long + "\nabacate\n",
		"italian":    "",
		// hiragana with combining dakuten as in the canonical japanese list
		"japanese": "あいこくしん\nあじわう\nぱんだ\n",
		"korean":   "가격\n가끔\n",
		// Han outside the BMP (CJK extension B) and an ideographic variation
		// sequence (the selector U+E0100 is a nonspacing mark)
		"chinese_simplified":  "的\n\U00020BB7野\n一\n\U0002A6A5\n",
		"chinese_traditional": "葛\U000E0100飾\n的\n\U00020000\U0002F800\n\U00016FF0\n",
	}
}

func nonEmptyLines(s string) []string {
	var out []string
	for _, l := range strings.Split(s, "\n") {
		if l != "" {
			out = append(out, l)
		}
	}
	return out
}

// readList type-checks the generated file and returns the elements of the
// []string composite literal assigned to the package-level variable name.
func readList(file, name string) ([]string, error) {
	fset := token.NewFileSet()
	f, err := parser.ParseFile(fset, file, nil, 0)
	if err != nil {
		return nil, fmt.Errorf("does not parse: %v", err)
	}
	if _, err := (&types.Config{}).Check("wordlist", fset, []*ast.File{f}, nil); err != nil {
		return nil, fmt.Errorf("does not type-check: %v", err)
	}
	if f.Name.Name != "wordlist" {
		return nil, fmt.Errorf("package %s, want wordlist", f.Name.Name)
	}
	for _, d := range f.Decls {
		gd, ok := d.(*ast.GenDecl)
		if !ok || gd.Tok != token.VAR {
			continue
		}
		for _, sp := range gd.Specs {
			vs := sp.(*ast.ValueSpec)
			if len(vs.Names) != 1 || vs.Names[0].Name != name || len(vs.Values) != 1 {
				continue
			}
			cl, ok := vs.Values[0].(*ast.CompositeLit)
			if !ok {
				return nil, fmt.Errorf("%s is not a composite literal", name)
			}
			list := []string{}
			for _, e := range cl.Elts {
				bl, ok := e.(*ast.BasicLit)
				if !ok || bl.Kind != token.STRING {
					return nil, fmt.Errorf("element %d of %s is not a string literal", len(list), name)
				}
				s, err := strconv.Unquote(bl.Value)
				if err != nil {
					return nil, err
				}
				list = append(list, s)
			}
			return list, nil
		}
	}
	return nil, fmt.Errorf("variable %s not found", name)
}

func show(s string) string {
	if len(s) > 40 {
		return fmt.Sprintf("%+q... (%d bytes)", s[:40], len(s))
	}
	return fmt.Sprintf("%+q", s)
}

func runGenerator(t *testing.T, inputs map[string]string, frag string) {
	tmp := t.TempDir()
	tool := filepath.Join(tmp, "update-wordlist.exe")
	build := exec.Command("go", "build", "-tags", "verif", "-o", tool, "./update-wordlist")
	if out, err := build.CombinedOutput(); err != nil {
		t.Fatalf("building the tool: %v\n%s", err, out)
	}

	up := filepath.Join(tmp, "upstream")
	src := filepath.Join(up, "bitcoin", "bips", "master", "bip-0039")
	work := filepath.Join(tmp, "work")
	for _, d := range []string{src, filepath.Join(work, "internal", "wordlist")} {
		if err := os.MkdirAll(d, 0777); err != nil {
			t.Fatal(err)
		}
	}
	for path := range demoTargets {
		if err := os.WriteFile(filepath.Join(src, path+".txt"), []byte(inputs[path]), 0666); err != nil {
			t.Fatal(err)
		}
	}

	cmd := exec.Command(tool)
	cmd.Dir = work
	cmd.Env = append(os.Environ(), "BIP39_VERIF_UPSTREAM="+up)
	if frag != "" {
		cmd.Env = append(cmd.Env, "BIP39_VERIF_FRAG="+frag)
	}
	if out, err := cmd.CombinedOutput(); err != nil {
		t.Fatalf("update-wordlist failed: %v\n%s", err, out)
	}

	for path, name := range demoTargets {
		want := nonEmptyLines(inputs[path])
		got, err := readList(filepath.Join(work, "internal", "wordlist", path+".go"), name)
		if err != nil {
			t.Errorf("%s.go: %v", path, err)
			continue
		}
		if len(got) != len(want) {
			t.Errorf("%s.go: %d words, want %d", path, len(got), len(want))
			continue
		}
		for i := range want {
			if got[i] != want[i] {
				t.Errorf("%s.go: word %d is %s, want %s", path, i, show(got[i]), show(want[i]))
			}
		}
	}
}

func TestDemoC17Quoting(t *testing.T) {
	t.Run("whole-reads", func(t *testing.T) { runGenerator(t, demoInputs(), "") })
	t.Run("short-reads", func(t *testing.T) { runGenerator(t, demoInputs(), "7") })
}
