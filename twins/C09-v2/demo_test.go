package bip39

// Demonstration for C09, pair 2 (size table + hand-written read loop).
//
// Run: go test -count=1 -run TestDemoC09RejectWithoutConsuming .
//
// A rejected word count must be rejected BEFORE the randomness source is
// touched: for every word count outside {12,15,18,21,24} - in particular the
// multiples of three just outside the range - NewMnemonic must return "",
// ErrWordLen and must not have called Read on the source at all.

import (
	"errors"
	"math"
	"testing"
)

type demoMeter struct {
	calls int
	bytes int
}

func (s *demoMeter) Read(p []byte) (int, error) {
	s.calls++
	for i := range p {
		p[i] = byte(7*s.bytes + i)
	}
	s.bytes += len(p)
	return len(p), nil
}

func TestDemoC09RejectWithoutConsuming(t *testing.T) {
	prev := cryptoRander
	defer func() { cryptoRander = prev }()

	valid := map[int]bool{12: true, 15: true, 18: true, 21: true, 24: true}
	counts := []int{
		math.MinInt64, math.MinInt64 + 2, math.MinInt64 + 3, math.MinInt32, -1 << 62, 3 - 3<<61,
		3<<59 + 12, 3<<61 + 12, 1<<62 + 2, math.MaxInt32, math.MaxInt64 - 1, math.MaxInt64,
	}
	for w := -300; w <= 300; w++ {
		counts = append(counts, w)
	}
	langs := []Language{
		ChineseSimplified, ChineseTraditional, English, French, Italian,
		Japanese, Korean, Spanish, Czech, Portuguese,
	}

	for _, lg := range langs {
		for _, w := range counts {
			src := &demoMeter{}
			cryptoRander = src
			m, err := NewMnemonic(w, lg)
			if valid[w] {
				if err != nil || m == "" || src.bytes != w/3*4 {
					t.Errorf("NewMnemonic(%d, %v) = %q, %v with %d bytes read; want a mnemonic from %d bytes",
						w, lg, m, err, src.bytes, w/3*4)
				}
				continue
			}
			if m != "" || !errors.Is(err, ErrWordLen) {
				t.Errorf("NewMnemonic(%d, %v) = %q, %v; want \"\", ErrWordLen", w, lg, m, err)
			}
			if src.calls != 0 || src.bytes != 0 {
				t.Errorf("NewMnemonic(%d, %v) was rejected (%v) but consumed randomness: %d Read call(s), %d byte(s)",
					w, lg, err, src.calls, src.bytes)
			}
		}
	}

	// the same with a source that has nothing to give: a rejected size must
	// still be answered with ErrWordLen, not with the source's error
	for _, w := range []int{-3, 0, 3, 6, 9, 27, 30, 33} {
		cryptoRander = emptyDemoSource{}
		if m, err := NewMnemonic(w, English); m != "" || !errors.Is(err, ErrWordLen) {
			t.Errorf("NewMnemonic(%d) with an exhausted source = %q, %v; want \"\", ErrWordLen", w, m, err)
		}
	}
}

type emptyDemoSource struct{}

func (emptyDemoSource) Read([]byte) (int, error) { return 0, errors.New("entropy device unavailable") }
