package bip39

// Demonstration for C17, pair 2: the update-wordlist tool must reproduce its
// upstream input faithfully whatever already lies in the output directory.
//
// The test builds ./update-wordlist with the "verif" tag (in-process upstream,
// no network), runs it in scratch directories that are empty, hold the
// (longer) committed lists, or hold what an earlier run that was killed half-way
// may have left behind (partial files, editor backups, "*.tmp" / "*.part" /
// "*.new" / "*~" siblings of the targets), and checks that every generated file
// parses as Go and lists exactly the non-empty upstream lines, in order.
//
// Run:  go test -count=1 -run TestDemoC17Pair2 .

import (
	"context"
	"go/ast"
	"go/parser"
	"go/token"
	"os"
	"os/exec"
	"path/filepath"
	"strconv"
	"strings"
	"testing"
	"time"

	"github.com/islishude/bip39/internal/wordlist"
)

var demoC17Targets = []struct {
	file, variable string
	canonical      []string
}{
	{"chinese_simplified", "ChineseSimplified", wordlist.ChineseSimplified},
	{"chinese_traditional", "ChineseTraditional", wordlist.ChineseTraditional},
	{"czech", "Czech", wordlist.Czech},
	{"english", "English", wordlist.English},
	{"french", "French", wordlist.French},
	{"italian", "Italian", wordlist.Italian},
	{"japanese", "Japanese", wordlist.Japanese},
	{"korean", "Korean", wordlist.Korean},
	{"portuguese", "Portuguese", wordlist.Portuguese},
	{"spanish", "Spanish", wordlist.Spanish},
}

func demoC17BuildTool(t *testing.T) string {
	t.Helper()
	bin := filepath.Join(t.TempDir(), "update-wordlist")
	ctx, cancel := context.WithTimeout(context.Background(), 5*time.Minute)
	defer cancel()
	cmd := exec.CommandContext(ctx, "go", "build", "-tags", "verif", "-o", bin, "./update-wordlist")
	if out, err := cmd.CombinedOutput(); err != nil {
		t.Fatalf("building the tool: %v\n%s", err, out)
	}
	return bin
}

// demoC17Upstream lays out bodies (keyed by list file name) the way the verif
// hook of the tool expects them.
func demoC17Upstream(t *testing.T, bodies map[string]string) string {
	t.Helper()
	root := t.TempDir()
	dir := filepath.Join(root, "bitcoin", "bips", "master", "bip-0039")
	if err := os.MkdirAll(dir, 0777); err != nil {
		t.Fatal(err)
	}
	for name, body := range bodies {
		if err := os.WriteFile(filepath.Join(dir, name+".txt"), []byte(body), 0666); err != nil {
			t.Fatal(err)
		}
	}
	return root
}

// demoC17RunIn runs the tool in the working directory work.
func demoC17RunIn(t *testing.T, bin, upstream, frag, work string) {
	t.Helper()
	ctx, cancel := context.WithTimeout(context.Background(), 2*time.Minute)
	defer cancel()
	cmd := exec.CommandContext(ctx, bin)
	cmd.Dir = work
	cmd.Env = append(os.Environ(), "BIP39_VERIF_UPSTREAM="+upstream)
	if frag != "" {
		cmd.Env = append(cmd.Env, "BIP39_VERIF_FRAG="+frag)
	}
	if out, err := cmd.CombinedOutput(); err != nil {
		t.Fatalf("tool failed: %v\n%s", err, out)
	}
}

// demoC17ReadList parses a generated file and returns the elements of
// "var <variable> = []string{...}".
func demoC17ReadList(t *testing.T, path, variable string) ([]string, bool) {
	t.Helper()
	fset := token.NewFileSet()
	f, err := parser.ParseFile(fset, path, nil, 0)
	if err != nil {
		t.Errorf("%s does not parse as Go: %v", path, err)
		return nil, false
	}
	if f.Name.Name != "wordlist" {
		t.Errorf("%s: package %s, want wordlist", path, f.Name.Name)
		return nil, false
	}
	var list []string
	found := 0
	for _, d := range f.Decls {
		gd, ok := d.(*ast.GenDecl)
		if !ok || gd.Tok != token.VAR {
			t.Errorf("%s: unexpected declaration", path)
			return nil, false
		}
		for _, s := range gd.Specs {
			vs := s.(*ast.ValueSpec)
			if len(vs.Names) != 1 || vs.Names[0].Name != variable || len(vs.Values) != 1 {
				t.Errorf("%s: unexpected var spec", path)
				return nil, false
			}
			cl, ok := vs.Values[0].(*ast.CompositeLit)
			if !ok {
				t.Errorf("%s: %s is not a composite literal", path, variable)
				return nil, false
			}
			found++
			for _, e := range cl.Elts {
				bl, ok := e.(*ast.BasicLit)
				if !ok || bl.Kind != token.STRING {
					t.Errorf("%s: non-string element", path)
					return nil, false
				}
				w, err := strconv.Unquote(bl.Value)
				if err != nil {
					t.Errorf("%s: %v", path, err)
					return nil, false
				}
				list = append(list, w)
			}
		}
	}
	if found != 1 {
		t.Errorf("%s: %d declarations of %s, want 1", path, found, variable)
		return nil, false
	}
	return list, true
}

func demoC17NonEmptyLines(body string) []string {
	var want []string
	for _, l := range strings.Split(body, "\n") {
		if l != "" {
			want = append(want, l)
		}
	}
	return want
}

func demoC17Check(t *testing.T, work string, bodies map[string]string) {
	t.Helper()
	for _, tg := range demoC17Targets {
		want := demoC17NonEmptyLines(bodies[tg.file])
		got, ok := demoC17ReadList(t, filepath.Join(work, "internal", "wordlist", tg.file+".go"), tg.variable)
		if !ok {
			continue
		}
		if len(got) != len(want) {
			t.Errorf("%s: %d words generated, %d non-empty lines upstream", tg.file, len(got), len(want))
		}
		for i := 0; i < len(got) && i < len(want); i++ {
			if got[i] != want[i] {
				t.Errorf("%s: word %d is %q, upstream line is %q", tg.file, i, got[i], want[i])
				break
			}
		}
	}
}

func TestDemoC17Pair2(t *testing.T) {
	bin := demoC17BuildTool(t)

	// a new upstream that is shorter than the committed lists: every 8th word
	bodies := map[string]string{}
	for _, tg := range demoC17Targets {
		var b strings.Builder
		for i := 0; i < len(tg.canonical); i += 8 {
			b.WriteString(tg.canonical[i])
			b.WriteString("\n")
		}
		bodies[tg.file] = b.String()
	}
	upstream := demoC17Upstream(t, bodies)

	committed := func(t *testing.T, file string) []byte {
		data, err := os.ReadFile(filepath.Join("internal", "wordlist", file+".go"))
		if err != nil {
			t.Fatal(err)
		}
		return data
	}

	scenarios := []struct {
		name    string
		prepare func(t *testing.T, dir string) // dir = <work>/internal/wordlist
	}{
		{"empty-directory", func(t *testing.T, dir string) {}},
		{"committed-lists-present", func(t *testing.T, dir string) {
			for _, tg := range demoC17Targets {
				if err := os.WriteFile(filepath.Join(dir, tg.file+".go"), committed(t, tg.file), 0666); err != nil {
					t.Fatal(err)
				}
			}
		}},
		{"truncated-targets-present", func(t *testing.T, dir string) {
			for _, tg := range demoC17Targets {
				c := committed(t, tg.file)
				if err := os.WriteFile(filepath.Join(dir, tg.file+".go"), c[:len(c)/3], 0666); err != nil {
					t.Fatal(err)
				}
			}
		}},
		{"leftovers-of-a-killed-run", func(t *testing.T, dir string) {
			// a run over the full-length lists that died after writing its
			// scratch copies and before putting them in place
			for _, tg := range demoC17Targets {
				c := committed(t, tg.file)
				for _, suffix := range []string{".tmp", ".part", ".new", "~", ".bak"} {
					if err := os.WriteFile(filepath.Join(dir, tg.file+".go"+suffix), c, 0666); err != nil {
						t.Fatal(err)
					}
				}
			}
		}},
	}
	for _, sc := range scenarios {
		t.Run(sc.name, func(t *testing.T) {
			work := t.TempDir()
			dir := filepath.Join(work, "internal", "wordlist")
			if err := os.MkdirAll(dir, 0777); err != nil {
				t.Fatal(err)
			}
			sc.prepare(t, dir)
			demoC17RunIn(t, bin, upstream, "", work)
			demoC17Check(t, work, bodies)
			// and once more over its own output
			demoC17RunIn(t, bin, upstream, "", work)
			demoC17Check(t, work, bodies)
		})
	}
}
