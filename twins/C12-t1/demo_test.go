package bip39

// Demonstration for twin pair 1 of property C12 (run with -race, see RUN.txt).
//
// The test re-executes its own test binary several times, so that every round
// starts in a process that has not used the package yet, whatever ran before
// it in the parent. In each child one language is used first, sequentially;
// after that, for every other language in turn, a group of goroutines is
// released together and each of them uses the language for the first time.
// Every result is compared with what the same call returns afterwards, alone.
//
// With the race detector the child of the "bad" twin reports a data race
// between buildMapping (writing into the snapshot that is already published)
// and mapping (reading that snapshot without a lock).

import (
	"bytes"
	"fmt"
	"os"
	"os/exec"
	"runtime"
	"strconv"
	"sync"
	"testing"
)

const (
	demoChildEnv = "BIP39_C12_DEMO_CHILD"
	demoRounds   = 8
	demoWorkers  = 8
)

func TestC12Demo(t *testing.T) {
	if v := os.Getenv(demoChildEnv); v != "" {
		round, _ := strconv.Atoi(v)
		demoChild(t, round)
		return
	}
	for round := 1; round <= demoRounds; round++ {
		cmd := exec.Command(os.Args[0], "-test.run=^TestC12Demo$", "-test.count=1", "-test.v")
		cmd.Env = append(os.Environ(), fmt.Sprintf("%s=%d", demoChildEnv, round))
		if os.Getenv("GORACE") == "" {
			// do not linger for a second at every exit
			cmd.Env = append(cmd.Env, "GORACE=atexit_sleep_ms=0")
		}
		var out bytes.Buffer
		cmd.Stdout, cmd.Stderr = &out, &out
		if err := cmd.Run(); err != nil {
			t.Fatalf("fresh process, round %d: %v\n%s", round, err, out.String())
		}
	}
}

type demoResult struct {
	check string
	valid bool
	mnem  string
	err   string
	name  string
}

func demoCalls(lang Language, mnemonic string, entropy []byte) demoResult {
	var r demoResult
	if err := CheckMnemonic(mnemonic, lang); err != nil {
		r.check = err.Error()
	}
	r.valid = IsMnemonicValid(mnemonic, lang)
	m, err := NewMnemonicByEntropy(entropy, lang)
	r.mnem = m
	if err != nil {
		r.err = err.Error()
	}
	r.name = lang.String()
	return r
}

func demoChild(t *testing.T, round int) {
	// the interleaving needs goroutines that really run side by side
	if runtime.GOMAXPROCS(0) < 4 {
		defer runtime.GOMAXPROCS(runtime.GOMAXPROCS(4))
	}
	entropy := []byte{0x9e, 0x37, 0x79, 0xb9, 0x7f, 0x4a, 0x7c, 0x15, 0xf3, 0x9c, 0xc0, 0x60, 0x5c, 0xed, 0xc8, 0x34}
	// the words come from the static lists only: this does not build any
	// lookup table
	mnemonics := make([]string, 10)
	for l := 0; l < 10; l++ {
		m, err := NewMnemonicByEntropy(entropy, Language(l))
		if err != nil {
			t.Fatal(err)
		}
		mnemonics[l] = m
	}

	// one language is used before the others, by this goroutine alone
	first := Language(round % 10)
	_ = CheckMnemonic(mnemonics[first], first)

	type key struct {
		lang   Language
		worker int
	}
	got := make(map[key]demoResult)
	var gotMu sync.Mutex

	for i := 1; i < 10; i++ {
		lang := Language((int(first) + i) % 10)
		start := make(chan struct{})
		var wg sync.WaitGroup
		for w := 0; w < demoWorkers; w++ {
			wg.Add(1)
			go func(w int) {
				defer wg.Done()
				<-start
				r := demoCalls(lang, mnemonics[lang], entropy)
				gotMu.Lock()
				got[key{lang, w}] = r
				gotMu.Unlock()
			}(w)
		}
		close(start)
		wg.Wait()
	}

	// the same calls, alone
	for k, r := range got {
		if want := demoCalls(k.lang, mnemonics[k.lang], entropy); r != want {
			t.Errorf("%v, worker %d: concurrent first use gave %+v, alone it gives %+v", k.lang, k.worker, r, want)
		}
	}
}
