package bip39

// Demonstration for twin pair 1 (property C06).
//
// Passes on the unchanged code and on good.diff, fails on bad.diff.
// Needs no build tag and no -race:
//
//	go test -count=1 -run 'TestDemoC06' .

import (
	"errors"
	"fmt"
	"io"
	"testing"
)

// simDevice is a simulated entropy device. It delivers data in reads of at
// most frag bytes. If failAt >= 0 it fails (persistently) with failErr once
// failAt bytes have been delivered; with alongside set, the error is returned
// by the same Read call that delivers the last bytes before the failure point.
type simDevice struct {
	data      []byte
	pos       int
	frag      int
	failAt    int
	failErr   error
	alongside bool

	failed      bool
	readsAfter  int // Read calls made after the failure was reported
	overRequest bool
	requested   int
}

func (d *simDevice) Read(p []byte) (int, error) {
	if d.failed {
		d.readsAfter++
		return 0, d.failErr
	}
	if len(p) == 0 {
		return 0, nil
	}
	n := len(p)
	if n > d.frag {
		n = d.frag
	}
	if rest := len(d.data) - d.pos; n > rest {
		n = rest
	}
	if d.failAt >= 0 {
		if rest := d.failAt - d.pos; n > rest {
			n = rest
		}
	}
	copy(p, d.data[d.pos:d.pos+n])
	d.pos += n
	if d.failAt >= 0 && d.pos == d.failAt && (n == 0 || d.alongside) {
		d.failed = true
		return n, d.failErr
	}
	if n == 0 {
		d.failed, d.failErr = true, io.EOF
		return 0, io.EOF
	}
	return n, nil
}

func demoData(n int) []byte {
	b := make([]byte, n)
	for i := range b {
		b[i] = byte(0xA5 ^ (i*37 + 11))
	}
	return b
}

var errDevice = errors.New("entropy device failure")

// The failure the original code reports for a source failing with e after k
// bytes (io.ReadFull semantics).
func wantErr(e error, k int) error {
	if e == io.EOF && k > 0 {
		return io.ErrUnexpectedEOF
	}
	return e
}

func withSource(r io.Reader, f func()) {
	prev := cryptoRander
	cryptoRander = r
	defer func() { cryptoRander = prev }()
	f()
}

// The focused case: the device delivers a full 7-byte read and reports its
// failure in the same call. Nothing more ever arrives.
func TestDemoC06ErrorAlongsideFullRead(t *testing.T) {
	for _, words := range []int{12, 15, 18, 21, 24} {
		size := words / 3 * 4
		for _, k := range []int{7, 14, 21, 28} {
			if k >= size {
				continue
			}
			dev := &simDevice{data: demoData(64), frag: 7, failAt: k, failErr: errDevice, alongside: true}
			var got string
			var err error
			withSource(dev, func() { got, err = NewMnemonic(words, English) })
			if err != errDevice || got != "" {
				t.Errorf("words=%d: device failed after %d of %d bytes (error returned alongside the last 7 bytes): got (%q, %v), want (\"\", %v)",
					words, k, size, got, err, errDevice)
			}
		}
	}
}

// The sweep: every word count, every failure point, every failure kind, with
// and without bytes alongside, every maximal fragment size.
func TestDemoC06Sweep(t *testing.T) {
	kinds := []error{io.EOF, io.ErrUnexpectedEOF, errDevice}
	bad := 0
	report := func(format string, a ...interface{}) {
		bad++
		if bad <= 12 {
			t.Errorf(format, a...)
		}
	}
	for _, words := range []int{12, 15, 18, 21, 24} {
		size := words / 3 * 4
		data := demoData(size + 9)
		want, err := NewMnemonicByEntropy(data[:size], English)
		if err != nil {
			t.Fatal(err)
		}
		for frag := 1; frag <= size; frag++ {
			// successful delivery, fragmented
			dev := &simDevice{data: data, frag: frag, failAt: -1}
			var got string
			withSource(dev, func() { got, err = NewMnemonic(words, English) })
			if err != nil || got != want {
				report("words=%d frag=%d: got (%q, %v), want (%q, nil)", words, frag, got, err, want)
			}
			if dev.pos != size {
				report("words=%d frag=%d: consumed %d bytes, want %d", words, frag, dev.pos, size)
			}
			// the failure arrives together with the completing bytes: still a success
			dev = &simDevice{data: data, frag: frag, failAt: size, failErr: errDevice, alongside: true}
			withSource(dev, func() { got, err = NewMnemonic(words, English) })
			if err != nil || got != want {
				report("words=%d frag=%d error with completing bytes: got (%q, %v), want (%q, nil)", words, frag, got, err, want)
			}

			for k := 0; k < size; k++ {
				for _, kind := range kinds {
					for _, alongside := range []bool{false, true} {
						dev := &simDevice{data: data, frag: frag, failAt: k, failErr: kind, alongside: alongside}
						withSource(dev, func() { got, err = NewMnemonic(words, English) })
						desc := fmt.Sprintf("words=%d frag=%d fail=%v after %d/%d bytes alongside=%v", words, frag, kind, k, size, alongside)
						if got != "" || err == nil {
							report("%s: got (%q, %v), want empty string and an error", desc, got, err)
							continue
						}
						if w := wantErr(kind, k); err != w {
							report("%s: error %v, want %v", desc, err, w)
						}
						if dev.readsAfter != 0 {
							report("%s: source read %d more times after it failed", desc, dev.readsAfter)
						}
					}
				}
			}
		}
	}
	if bad > 12 {
		t.Errorf("... and %d more violations", bad-12)
	}
}
