package bip39

// Demonstration for C07 (default source is crypto/rand.Reader itself).
//
// The parent test re-executes the test binary once per process configuration
// (BIP39_SELFTEST value x GOMAXPROCS x first NewMnemonic call) so that every
// child observes the package exactly as a fresh process initialises it, with
// nothing swapped. The child checks that the source variable is nil or
// crypto/rand.Reader before the first call and crypto/rand.Reader itself
// after it, and that mnemonics drawn from the default source are not fixed.

import (
	"crypto/rand"
	"fmt"
	"os"
	"os/exec"
	"strconv"
	"strings"
	"testing"
)

const (
	demoChildEnv = "BIP39_DEMO_CHILD"
	demoWordsEnv = "BIP39_DEMO_FIRST_WORDS"
	demoLangEnv  = "BIP39_DEMO_FIRST_LANG"
)

func demoIsDefault(r interface{}) bool { return r == interface{}(rand.Reader) }

func TestDemoChild(t *testing.T) {
	if os.Getenv(demoChildEnv) == "" {
		t.Skip("helper process only")
	}
	if cryptoRander != nil && !demoIsDefault(cryptoRander) {
		t.Fatalf("before first use the source is %T, want nil or crypto/rand.Reader", cryptoRander)
	}
	words, _ := strconv.Atoi(os.Getenv(demoWordsEnv))
	lang, _ := strconv.Atoi(os.Getenv(demoLangEnv))
	first, err := NewMnemonic(words, Language(lang))
	if err != nil {
		t.Fatalf("first call NewMnemonic(%d, %v): %v", words, Language(lang), err)
	}
	if !demoIsDefault(cryptoRander) {
		t.Errorf("after the first call the source is %T (%v), want crypto/rand.Reader itself", cryptoRander, cryptoRander)
	}
	// every later call, in every size and language, still sees the default
	// source and does not repeat itself
	seen := map[string]bool{first: true}
	for l := ChineseSimplified; l <= Portuguese; l++ {
		for _, w := range []int{12, 15, 18, 21, 24} {
			m, err := NewMnemonic(w, l)
			if err != nil {
				t.Fatalf("NewMnemonic(%d, %v): %v", w, l, err)
			}
			if seen[m] {
				t.Errorf("NewMnemonic(%d, %v) repeated an earlier mnemonic: %q", w, l, m)
			}
			seen[m] = true
			if !demoIsDefault(cryptoRander) {
				t.Fatalf("after NewMnemonic(%d, %v) the source is %T, want crypto/rand.Reader itself", w, l, cryptoRander)
			}
		}
	}
	again, err := NewMnemonic(words, Language(lang))
	if err != nil || again == first {
		t.Errorf("repeating the first call gave %q, %v (first %q)", again, err, first)
	}
}

func TestDemoDefaultSource(t *testing.T) {
	if os.Getenv(demoChildEnv) != "" {
		t.Skip("parent only")
	}
	selftest := []string{"<unset>", "", "off", "full", "1"}
	procs := []string{"1", "4"}
	type call struct {
		words int
		lang  Language
	}
	var firsts []call
	for _, w := range []int{12, 15, 18, 21, 24} {
		for _, l := range []Language{English, Japanese, Korean} {
			firsts = append(firsts, call{w, l})
		}
	}
	bad := 0
	for _, st := range selftest {
		for _, p := range procs {
			for _, f := range firsts {
				cmd := exec.Command(os.Args[0], "-test.run=^TestDemoChild$", "-test.count=1")
				var env []string
				for _, kv := range os.Environ() {
					if !strings.HasPrefix(kv, "BIP39_") && !strings.HasPrefix(kv, "GOMAXPROCS=") {
						env = append(env, kv)
					}
				}
				env = append(env, demoChildEnv+"=1", "GOMAXPROCS="+p,
					fmt.Sprintf("%s=%d", demoWordsEnv, f.words),
					fmt.Sprintf("%s=%d", demoLangEnv, int(f.lang)))
				if st != "<unset>" {
					env = append(env, "BIP39_SELFTEST="+st)
				}
				cmd.Env = env
				out, err := cmd.CombinedOutput()
				if err != nil {
					bad++
					if bad <= 5 {
						t.Errorf("BIP39_SELFTEST=%s GOMAXPROCS=%s first call (%d words, %v): %v\n%s",
							st, p, f.words, f.lang, err, out)
					}
				}
			}
		}
	}
	if bad > 5 {
		t.Errorf("... %d failing process configurations in total", bad)
	}
}
