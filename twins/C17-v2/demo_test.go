package bip39_test

// Demonstration for C17 (twin pair 2): the update-wordlist tool must write
// every upstream list into its own file under its own variable, also when
// several upstream files happen to have the same content.
//
// The test builds the tool with -tags verif, serves ten upstream lists from a
// temporary directory (BIP39_VERIF_UPSTREAM), optionally has the bodies
// delivered in short reads (BIP39_VERIF_FRAG), runs the tool in a scratch
// directory and parses the ten generated Go files.
//
//	go test -count=1 -run 'TestDemoC17' .

import (
	"bytes"
	"fmt"
	"go/ast"
	"go/parser"
	"go/token"
	"go/types"
	"math/rand"
	"os"
	"os/exec"
	"path/filepath"
	"reflect"
	"strconv"
	"strings"
	"testing"
)

var demoLangs = map[string]string{
	"chinese_simplified":  "ChineseSimplified",
	"chinese_traditional": "ChineseTraditional",
	"english":             "English",
	"french":              "French",
	"italian":             "Italian",
	"japanese":            "Japanese",
	"korean":              "Korean",
	"spanish":             "Spanish",
	"czech":               "Czech",
	"portuguese":          "Portuguese",
}

// demoParseList parses a generated file and returns the variable name and the list.
func demoParseList(fset *token.FileSet, file string) (*ast.File, string, []string, error) {
	f, err := parser.ParseFile(fset, file, nil, 0)
	if err != nil {
		return nil, "", nil, err
	}
	if f.Name.Name != "wordlist" {
		return nil, "", nil, fmt.Errorf("%s: package %s", file, f.Name.Name)
	}
	if len(f.Decls) != 1 {
		return nil, "", nil, fmt.Errorf("%s: %d declarations", file, len(f.Decls))
	}
	gd, ok := f.Decls[0].(*ast.GenDecl)
	if !ok || gd.Tok != token.VAR || len(gd.Specs) != 1 {
		return nil, "", nil, fmt.Errorf("%s: not a single var declaration", file)
	}
	vs := gd.Specs[0].(*ast.ValueSpec)
	if len(vs.Names) != 1 || len(vs.Values) != 1 {
		return nil, "", nil, fmt.Errorf("%s: not a single var", file)
	}
	cl, ok := vs.Values[0].(*ast.CompositeLit)
	if !ok {
		return nil, "", nil, fmt.Errorf("%s: value is not a composite literal", file)
	}
	words := []string{}
	for _, e := range cl.Elts {
		bl, ok := e.(*ast.BasicLit)
		if !ok || bl.Kind != token.STRING {
			return nil, "", nil, fmt.Errorf("%s: element is not a string literal", file)
		}
		w, err := strconv.Unquote(bl.Value)
		if err != nil {
			return nil, "", nil, err
		}
		words = append(words, w)
	}
	return f, vs.Names[0].Name, words, nil
}

func demoNonEmptyLines(s string) []string {
	out := []string{}
	for _, l := range strings.Split(s, "\n") {
		if l != "" {
			out = append(out, l)
		}
	}
	return out
}

// demoCanonical returns the committed lists, as upstream text (one word per line).
func demoCanonical(t *testing.T) map[string]string {
	t.Helper()
	out := map[string]string{}
	fset := token.NewFileSet()
	for lang, variable := range demoLangs {
		_, name, words, err := demoParseList(fset, filepath.Join("internal", "wordlist", lang+".go"))
		if err != nil {
			t.Fatal(err)
		}
		if name != variable || len(words) != 2048 {
			t.Fatalf("committed %s: var %s, %d words", lang, name, len(words))
		}
		out[lang] = strings.Join(words, "\n") + "\n"
	}
	return out
}

func demoBuildTool(t *testing.T) string {
	t.Helper()
	bin := filepath.Join(t.TempDir(), "update-wordlist.bin")
	cmd := exec.Command("go", "build", "-tags", "verif", "-o", bin, "./update-wordlist")
	if out, err := cmd.CombinedOutput(); err != nil {
		t.Fatalf("building the tool: %v\n%s", err, out)
	}
	return bin
}

// demoRun runs the tool on the given upstream and checks all ten outputs.
// It returns a description of the first deviation ("" if there is none).
func demoRun(t *testing.T, bin string, upstream map[string]string, frag string) string {
	t.Helper()
	up := t.TempDir()
	updir := filepath.Join(up, "bitcoin", "bips", "master", "bip-0039")
	if err := os.MkdirAll(updir, 0777); err != nil {
		t.Fatal(err)
	}
	for lang := range demoLangs {
		if err := os.WriteFile(filepath.Join(updir, lang+".txt"), []byte(upstream[lang]), 0666); err != nil {
			t.Fatal(err)
		}
	}
	work := t.TempDir()
	outdir := filepath.Join(work, "internal", "wordlist")
	if err := os.MkdirAll(outdir, 0777); err != nil {
		t.Fatal(err)
	}
	cmd := exec.Command(bin)
	cmd.Dir = work
	cmd.Env = append(os.Environ(), "BIP39_VERIF_UPSTREAM="+up)
	if frag != "" {
		cmd.Env = append(cmd.Env, "BIP39_VERIF_FRAG="+frag)
	}
	if out, err := cmd.CombinedOutput(); err != nil {
		return fmt.Sprintf("tool failed: %v\n%s", err, out)
	}

	ents, err := os.ReadDir(outdir)
	if err != nil {
		t.Fatal(err)
	}
	if len(ents) != len(demoLangs) {
		return fmt.Sprintf("%d files in %s, want %d", len(ents), outdir, len(demoLangs))
	}
	fset := token.NewFileSet()
	var files []*ast.File
	for lang, variable := range demoLangs {
		f, name, words, err := demoParseList(fset, filepath.Join(outdir, lang+".go"))
		if err != nil {
			return fmt.Sprintf("%s.go does not parse: %v", lang, err)
		}
		files = append(files, f)
		if name != variable {
			return fmt.Sprintf("%s.go declares %s, want %s", lang, name, variable)
		}
		want := demoNonEmptyLines(upstream[lang])
		if !reflect.DeepEqual(words, want) {
			for i := 0; i < len(words) && i < len(want); i++ {
				if words[i] != want[i] {
					return fmt.Sprintf("%s.go: %d words, want %d; word %d is %q, want %q", lang, len(words), len(want), i, words[i], want[i])
				}
			}
			return fmt.Sprintf("%s.go: %d words, want %d", lang, len(words), len(want))
		}
	}
	if _, err := (&types.Config{}).Check("wordlist", fset, files, nil); err != nil {
		return fmt.Sprintf("generated package does not type-check: %v", err)
	}
	return ""
}

// demoShuffled builds, per language, a list of n words drawn from the
// committed list of that language (so every script is exercised), with the
// requested tail and a few blank lines.
func demoShuffled(canon map[string]string, rng *rand.Rand, n int, blanks bool, trailingNL bool) map[string]string {
	out := map[string]string{}
	for lang := range demoLangs {
		words := demoNonEmptyLines(canon[lang])
		var b bytes.Buffer
		for i := 0; i < n; i++ {
			if i > 0 {
				b.WriteByte('\n')
				if blanks && rng.Intn(7) == 0 {
					b.WriteByte('\n')
				}
			}
			b.WriteString(words[rng.Intn(len(words))])
		}
		if trailingNL {
			b.WriteByte('\n')
		}
		out[lang] = b.String()
	}
	return out
}

func TestDemoC17Pair2(t *testing.T) {
	bin := demoBuildTool(t)
	canon := demoCanonical(t)

	t.Run("canonical/whole", func(t *testing.T) {
		if msg := demoRun(t, bin, canon, ""); msg != "" {
			t.Error(msg)
		}
	})
	t.Run("canonical/frag=1", func(t *testing.T) {
		if msg := demoRun(t, bin, canon, "1"); msg != "" {
			t.Error(msg)
		}
	})
	rng := rand.New(rand.NewSource(17))
	for i, n := range []int{0, 1, 2, 5, 40, 300, 2048, 2500} {
		if n == 0 {
			continue // ten empty files are the "same content" case below
		}
		up := demoShuffled(canon, rng, n, i%2 == 1, i%3 != 0)
		for _, frag := range []string{"", strconv.Itoa(100 + i)} {
			frag := frag
			t.Run(fmt.Sprintf("random/n=%d/frag=%s", n, frag), func(t *testing.T) {
				if msg := demoRun(t, bin, up, frag); msg != "" {
					t.Error(msg)
				}
			})
		}
	}

	// Two targets whose upstream files are byte-identical (the other eight
	// differ): each must still be generated under its own variable.
	t.Run("english-equals-french", func(t *testing.T) {
		up := demoShuffled(canon, rng, 200, false, true)
		up["french"] = up["english"]
		if msg := demoRun(t, bin, up, ""); msg != "" {
			t.Error(msg)
		}
	})
	t.Run("both-chinese-lists-equal/frag=9", func(t *testing.T) {
		up := demoShuffled(canon, rng, 2048, false, true)
		up["chinese_traditional"] = up["chinese_simplified"]
		if msg := demoRun(t, bin, up, "9"); msg != "" {
			t.Error(msg)
		}
	})
	// The same list served for all ten targets (also: ten empty files).
	t.Run("all-ten-equal", func(t *testing.T) {
		up := map[string]string{}
		for lang := range demoLangs {
			up[lang] = canon["english"]
		}
		if msg := demoRun(t, bin, up, ""); msg != "" {
			t.Error(msg)
		}
	})
	t.Run("all-ten-empty", func(t *testing.T) {
		if msg := demoRun(t, bin, map[string]string{}, ""); msg != "" {
			t.Error(msg)
		}
	})
}
