package bip39

import (
	"errors"
	"fmt"
	"io"
	"strings"
	"testing"
)

// demoStep is one scripted answer of the simulated entropy device.
type demoStep struct {
	n   int   // bytes delivered by this Read (capped by len(p))
	err error // error reported alongside
}

// demoDevice delivers the bytes 1,2,3,... according to a script; once the
// script is exhausted it keeps answering with the final step's error (or
// with whole reads if the script ended without error).
type demoDevice struct {
	script []demoStep
	pos    int
	next   byte
	total  int
}

func (d *demoDevice) Read(p []byte) (int, error) {
	var st demoStep
	if d.pos < len(d.script) {
		st = d.script[d.pos]
		d.pos++
	} else if last := d.script[len(d.script)-1]; last.err != nil {
		st = demoStep{0, last.err}
	} else {
		st = demoStep{len(p), nil}
	}
	n := st.n
	if n > len(p) {
		n = len(p)
	}
	for i := 0; i < n; i++ {
		d.next++
		p[i] = d.next
	}
	d.total += n
	return n, st.err
}

func demoExpected(t *testing.T, need int) string {
	t.Helper()
	ent := make([]byte, need)
	for i := range ent {
		ent[i] = byte(i + 1)
	}
	want, err := NewMnemonicByEntropy(ent, English)
	if err != nil {
		t.Fatal(err)
	}
	return want
}

func demoRun(script []demoStep, words int) (string, error, *demoDevice) {
	dev := &demoDevice{script: script}
	saved := cryptoRander
	cryptoRander = dev
	defer func() { cryptoRander = saved }()
	got, err := NewMnemonic(words, English)
	return got, err, dev
}

// TestDemoC06FailClosed: the source fails after k < 4n/3 bytes, the error
// arriving alongside the last bytes it delivers; every prefix length, three
// error kinds, one-read and byte-wise delivery.
func TestDemoC06FailClosed(t *testing.T) {
	errDevice := errors.New("entropy device failed")
	kinds := []error{io.EOF, io.ErrUnexpectedEOF, errDevice}
	for _, words := range []int{12, 15, 18, 21, 24} {
		need := words + words/3
		for k := 0; k < need; k++ {
			for _, kind := range kinds {
				scripts := map[string][]demoStep{
					"one read, error alongside": {{k, kind}},
					"one read, error afterwards": {{k, nil}, {0, kind}},
				}
				if k > 0 {
					var bw []demoStep
					for i := 0; i < k-1; i++ {
						bw = append(bw, demoStep{1, nil})
					}
					bw = append(bw, demoStep{1, kind})
					scripts["bytewise, error alongside the last byte"] = bw
					half := []demoStep{{k / 2, nil}, {0, nil}, {k - k/2, kind}}
					scripts["two reads with an empty one between, error alongside"] = half
				}
				for name, sc := range scripts {
					got, err, _ := demoRun(sc, words)
					if err == nil || got != "" {
						t.Errorf("n=%d k=%d/%d kind=%v (%s): NewMnemonic = (%q, %v); want (\"\", error): mnemonic built although the source failed after %d bytes",
							words, k, need, kind, name, got, err, k)
						continue
					}
					want := kind
					if kind == io.EOF && k > 0 {
						want = io.ErrUnexpectedEOF
					}
					if !errors.Is(err, want) {
						t.Errorf("n=%d k=%d kind=%v (%s): error = %v, want %v", words, k, kind, name, err, want)
					}
				}
			}
		}
	}
}

// TestDemoC06Fragmented: a successful delivery, however fragmented (short
// reads, empty reads, an error reported together with the completing read),
// yields the encoding of the first 4n/3 bytes and consumes exactly those.
func TestDemoC06Fragmented(t *testing.T) {
	for _, words := range []int{12, 15, 18, 21, 24} {
		need := words + words/3
		want := demoExpected(t, need)
		var scripts [][]demoStep
		scripts = append(scripts, []demoStep{{need, nil}})
		scripts = append(scripts, []demoStep{{need, io.EOF}})
		scripts = append(scripts, []demoStep{{need, errors.New("late")}})
		for cut := 1; cut < need; cut++ {
			scripts = append(scripts, []demoStep{{cut, nil}, {need - cut, nil}})
			scripts = append(scripts, []demoStep{{cut, nil}, {0, nil}, {0, nil}, {need - cut, io.EOF}})
			scripts = append(scripts, []demoStep{{0, nil}, {cut, nil}, {need, nil}})
		}
		var bw []demoStep
		for i := 0; i < need; i++ {
			bw = append(bw, demoStep{1, nil}, demoStep{0, nil})
		}
		scripts = append(scripts, bw)
		for _, sc := range scripts {
			got, err, dev := demoRun(sc, words)
			if err != nil || got != want {
				t.Errorf("n=%d script=%s: NewMnemonic = (%q, %v), want (%q, nil)", words, fmt.Sprint(sc), got, err, want)
				continue
			}
			if dev.total != need {
				t.Errorf("n=%d script=%s: consumed %d bytes, want %d", words, fmt.Sprint(sc), dev.total, need)
			}
			if len(strings.Fields(got)) != words {
				t.Errorf("n=%d: %d words", words, len(strings.Fields(got)))
			}
		}
	}
}
