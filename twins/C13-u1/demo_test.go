package bip39

import (
	"bytes"
	"errors"
	"testing"
)

// dyingSource delivers the bytes of data (in one read) and then fails for good.
type dyingSource struct {
	data []byte
	err  error
}

func (d *dyingSource) Read(p []byte) (int, error) {
	if len(d.data) == 0 {
		return 0, d.err
	}
	n := copy(p, d.data)
	d.data = d.data[n:]
	return n, nil
}

// C13: a NewMnemonic call that FAILED because the source died after it had
// already delivered some bytes must not influence any later call. The later
// call has to return the encoding of the first 4n/3 bytes of ITS source and
// must consume exactly those.
func TestDemoC13FailedCallLeavesNoTrace(t *testing.T) {
	saved := cryptoRander
	defer func() { cryptoRander = saved }()

	errDied := errors.New("entropy device died")
	langs := []Language{ChineseSimplified, ChineseTraditional, English, French, Italian,
		Japanese, Korean, Spanish, Czech, Portuguese}

	// sync.Pool may drop or migrate objects (it does so on purpose under
	// -race), so the sequence is repeated; one deviation is enough.
	for round := 0; round < 40; round++ {
		for _, words := range []int{12, 15, 18, 21, 24} {
			size := words + words/3
			lang := langs[(round+words)%len(langs)]

			// what the successful call has to return, computed up front
			stream := make([]byte, size+8)
			for i := range stream {
				stream[i] = byte(31*i + 7*round + words)
			}
			want, err := NewMnemonicByEntropy(append([]byte(nil), stream[:size]...), lang)
			if err != nil {
				t.Fatal(err)
			}

			// 1. a call that fails after k >= 1 bytes were delivered
			k := 1 + (round+words)%(size-1)
			cryptoRander = &dyingSource{data: bytes.Repeat([]byte{0xA5}, k), err: errDied}
			got, err := NewMnemonic(words, lang)
			if got != "" || !errors.Is(err, errDied) {
				t.Fatalf("round %d: NewMnemonic(%d) with a source dying after %d bytes = (%q, %v), want (\"\", %v)",
					round, words, k, got, err, errDied)
			}

			// 2. a later, unrelated call with a healthy source
			src := bytes.NewReader(stream)
			cryptoRander = src
			got, err = NewMnemonic(words, lang)
			if err != nil {
				t.Fatalf("round %d: NewMnemonic(%d) after a failed call: unexpected error %v", round, words, err)
			}
			if got != want {
				t.Fatalf("round %d: NewMnemonic(%d, %v) after a call that failed at byte %d is not the encoding of the first %d source bytes\n got: %s\nwant: %s",
					round, words, lang, k, size, got, want)
			}
			if used := len(stream) - src.Len(); used != size {
				t.Fatalf("round %d: NewMnemonic(%d) after a call that failed at byte %d consumed %d bytes of its source, want %d",
					round, words, k, used, size)
			}
		}
	}
}
