package bip39

import (
	"bytes"
	"crypto/sha512"
	"fmt"
	"testing"

	"golang.org/x/crypto/pbkdf2"
	"golang.org/x/text/unicode/norm"
)

// refSeed is the BIP39 seed derivation written out independently of the package.
func refSeed(mnemonic, passphrase string) []byte {
	return pbkdf2.Key([]byte(norm.NFKD.String(mnemonic)), []byte(norm.NFKD.String("mnemonic"+passphrase)), 2048, 64, sha512.New)
}

// C13 demo (pair 1): MnemonicToSeed must be a function of its two arguments,
// whatever the caller has done with slices returned earlier, and a slice
// returned earlier must never be altered by later calls.
//
// Run:  go test -count=1 -run 'TestDemoC13' .

// Arguments that no other test of the package uses, so that the first call
// below is the first call with these arguments in the process even when the
// whole suite runs.
const (
	demoMnemonic = "coffee purity language speed anger whisper ramp burden response brief coast trigger"
	demoPass     = "C13 demo: wipe"
)

// A caller that wipes the seed after use (ordinary key hygiene) and asks for
// the same seed again must get the same seed again.
func TestDemoC13SeedSurvivesCallerWipe(t *testing.T) {
	want := refSeed(demoMnemonic, demoPass)
	for round := 1; round <= 3; round++ {
		seed := MnemonicToSeed(demoMnemonic, demoPass)
		if !bytes.Equal(seed, want) {
			t.Fatalf("call %d: MnemonicToSeed = %x, want %x (result depends on what the caller did to the slice returned by an earlier call)", round, seed, want)
		}
		for i := range seed { // caller wipes its secret
			seed[i] = 0
		}
	}
}

// A seed returned earlier must not change while other seeds are derived.
func TestDemoC13EarlierSeedNotAlteredByLaterCalls(t *testing.T) {
	const mnemonic = "moment butter trigger coffee divert choose slim tiger ice series cup enough"
	const pass = "C13 demo: first"
	want := refSeed(mnemonic, pass)
	first := MnemonicToSeed(mnemonic, pass)
	if !bytes.Equal(first, want) {
		t.Fatalf("MnemonicToSeed = %x, want %x", first, want)
	}
	for i := 0; i < 100; i++ {
		_ = MnemonicToSeed(mnemonic, fmt.Sprintf("other passphrase %d", i))
		if !bytes.Equal(first, want) {
			t.Fatalf("after %d later calls with other arguments the slice returned by the first call changed to %x", i+1, first)
		}
	}
	if again := MnemonicToSeed(mnemonic, pass); !bytes.Equal(again, want) {
		t.Fatalf("repeat call: MnemonicToSeed = %x, want %x", again, want)
	}
}
