package bip39_test

// Demonstration for twin pair 1 of C12 (cold-start concurrency).
//
// Every trial is a FRESH process (the test binary re-executes itself), because
// the property is about the first use of the lazily built lookup tables. In
// the child, two goroutines per language (one with a known-good mnemonic, one
// with a known-bad one) are released by a barrier and validate it; after the
// goroutines are done the same questions are asked again sequentially. Every
// answer must be the answer the call gives when run alone:
//   valid mnemonic                      -> nil
//   last word carrying another checksum -> ErrChecksumIncorrect
// A child that does not finish in time counts as a hang.
//
// The race detector is NOT needed (the slip of this pair is race-free); the
// test also works under -race.

import (
	"bytes"
	"context"
	"errors"
	"fmt"
	"os"
	"os/exec"
	"strings"
	"sync"
	"testing"
	"time"

	"github.com/islishude/bip39"
)

const demoChildEnv = "BIP39_DEMO_C12_1_CHILD"

var demoLangs = []bip39.Language{
	bip39.ChineseSimplified, bip39.ChineseTraditional, bip39.English,
	bip39.French, bip39.Italian, bip39.Japanese, bip39.Korean,
	bip39.Spanish, bip39.Czech, bip39.Portuguese,
}

type demoCase struct {
	lang     bip39.Language
	mnemonic string
	want     error
}

// demoCases only uses NewMnemonicByEntropy, which does not touch the lazily
// built tables: the process is still cold when the goroutines start.
func demoCases() ([]demoCase, error) {
	var cases []demoCase
	for i, lang := range demoLangs {
		ent := bytes.Repeat([]byte{byte(0x11 * (i + 1))}, 16)
		good, err := bip39.NewMnemonicByEntropy(ent, lang)
		if err != nil {
			return nil, err
		}
		cases = append(cases, demoCase{lang, good, nil})

		// A mnemonic with known words and a wrong checksum, built without
		// calling CheckMnemonic: entropy that differs only in its first byte
		// gives a last word with the same 7 entropy bits; if that last word
		// differs, it carries a different checksum, so grafting it onto the
		// good mnemonic yields "checksum incorrect".
		sep := " "
		if lang == bip39.Japanese {
			sep = "\u3000"
		}
		a := strings.Split(good, sep)
		for k := 1; k < 256; k++ {
			ent2 := append([]byte(nil), ent...)
			ent2[0] ^= byte(k)
			other, err := bip39.NewMnemonicByEntropy(ent2, lang)
			if err != nil {
				return nil, err
			}
			b := strings.Split(other, sep)
			if b[len(b)-1] != a[len(a)-1] {
				a[len(a)-1] = b[len(b)-1]
				break
			}
		}
		cases = append(cases, demoCase{lang, strings.Join(a, sep), bip39.ErrChecksumIncorrect})
	}
	return cases, nil
}

func demoCheck(c demoCase) error {
	got := bip39.CheckMnemonic(c.mnemonic, c.lang)
	if !errors.Is(got, c.want) || (c.want == nil && got != nil) {
		return fmt.Errorf("CheckMnemonic(%v) = %v, want %v", c.lang, got, c.want)
	}
	if valid := bip39.IsMnemonicValid(c.mnemonic, c.lang); valid != (c.want == nil) {
		return fmt.Errorf("IsMnemonicValid(%v) = %v, want %v", c.lang, valid, c.want == nil)
	}
	return nil
}

func demoChild(t *testing.T) {
	cases, err := demoCases()
	if err != nil {
		t.Fatal(err)
	}

	var (
		start = make(chan struct{})
		wg    sync.WaitGroup
		mu    sync.Mutex
		errs  []error
	)
	for _, c := range cases {
		wg.Add(1)
		go func(c demoCase) {
			defer wg.Done()
			<-start
			for i := 0; i < 3; i++ {
				if err := demoCheck(c); err != nil {
					mu.Lock()
					errs = append(errs, fmt.Errorf("concurrent: %v", err))
					mu.Unlock()
				}
			}
		}(c)
	}
	close(start)
	wg.Wait()

	// the same calls, now alone
	for _, c := range cases {
		if err := demoCheck(c); err != nil {
			errs = append(errs, fmt.Errorf("afterwards, sequential: %v", err))
		}
	}
	for _, err := range errs {
		t.Error(err)
	}
}

func TestDemoC12Pair1(t *testing.T) {
	if os.Getenv(demoChildEnv) == "1" {
		demoChild(t)
		return
	}

	const trials = 40
	failed := 0
	for trial := 0; trial < trials && failed < 3; trial++ {
		ctx, cancel := context.WithTimeout(context.Background(), 60*time.Second)
		cmd := exec.CommandContext(ctx, os.Args[0], "-test.run=^TestDemoC12Pair1$", "-test.count=1")
		cmd.Env = append(os.Environ(), demoChildEnv+"=1")
		if os.Getenv("GORACE") == "" {
			// only matters under -race: do not sleep 1s at the exit of every
			// child (all goroutines have been joined by then)
			cmd.Env = append(cmd.Env, "GORACE=atexit_sleep_ms=0")
		}
		out, err := cmd.CombinedOutput()
		hung := ctx.Err() != nil
		cancel()
		switch {
		case hung:
			failed++
			t.Errorf("trial %d: fresh process did not finish within 60s (hang)\n%s", trial, out)
		case err != nil:
			failed++
			t.Errorf("trial %d: fresh process failed: %v\n%s", trial, err, out)
		}
	}
}
