package bip39

// Demonstration for twin pair 1 (property C06).
//
// A scripted randomness source delivers k bytes without trouble (in one read
// or in one-byte reads), and then a read that returns j more bytes TOGETHER
// WITH an error. For every word count, every k, every j and three kinds of
// error the test asks what io.ReadFull semantics demand:
//
//	k+j == 4n/3 : the buffer is complete, the error is irrelevant, the result
//	              is the encoding of exactly those bytes;
//	k+j <  4n/3 : non-nil error, empty string - never a mnemonic.
//
// Run: go test -count=1 -run 'TestDemoC06' .

import (
	"errors"
	"fmt"
	"io"
	"strings"
	"testing"
)

type demoStep struct {
	n   int
	err error
}

// demoSource plays a script of reads over a fixed byte stream. When the
// script is over it keeps returning (0, last error) - or, if the last step
// had no error, keeps delivering whatever is asked for.
type demoSource struct {
	data  []byte
	pos   int
	steps []demoStep
	i     int
	reads int
	asked []int
}

func (s *demoSource) Read(p []byte) (int, error) {
	s.reads++
	s.asked = append(s.asked, len(p))
	if s.i >= len(s.steps) {
		if len(s.steps) > 0 && s.steps[len(s.steps)-1].err != nil {
			return 0, s.steps[len(s.steps)-1].err
		}
		n := copy(p, s.data[s.pos:])
		s.pos += n
		return n, nil
	}
	st := s.steps[s.i]
	s.i++
	n := st.n
	if n > len(p) {
		n = len(p)
	}
	n = copy(p[:n], s.data[s.pos:])
	s.pos += n
	return n, st.err
}

func demoStream() []byte {
	b := make([]byte, 64)
	for i := range b {
		b[i] = byte(0xA5 ^ (i*37 + 11)) // no zero bytes at the front, all distinct enough
	}
	return b
}

var errDemoDevice = errors.New("demo: entropy device failed")

func TestDemoC06ErrorAlongsideBytes(t *testing.T) {
	saved := cryptoRander
	defer func() { cryptoRander = saved }()

	kinds := []struct {
		name string
		err  error
	}{
		{"EOF", io.EOF},
		{"UnexpectedEOF", io.ErrUnexpectedEOF},
		{"device", errDemoDevice},
	}
	bad := 0
	for _, words := range []int{12, 15, 18, 21, 24} {
		size := words / 3 * 4
		for _, kind := range kinds {
			for _, single := range []bool{true, false} {
				for k := 0; k < size; k++ {
					for j := 0; k+j <= size; j++ {
						if bad > 20 {
							t.Fatalf("too many failures, stopping")
						}
						var steps []demoStep
						if single {
							if k > 0 {
								steps = append(steps, demoStep{k, nil})
							}
						} else {
							for x := 0; x < k; x++ {
								steps = append(steps, demoStep{1, nil})
							}
						}
						steps = append(steps, demoStep{j, kind.err})
						src := &demoSource{data: demoStream(), steps: steps}
						cryptoRander = src
						got, err := NewMnemonic(words, English)
						id := fmt.Sprintf("words=%d kind=%s k=%d j=%d single=%v", words, kind.name, k, j, single)

						if k+j == size {
							want, werr := NewMnemonicByEntropy(demoStream()[:size], English)
							if werr != nil {
								t.Fatalf("%s: reference: %v", id, werr)
							}
							if err != nil || got != want {
								bad++
								t.Errorf("%s: all %d bytes were delivered: got (%q, %v), want (%q, nil)", id, size, got, err, want)
							}
							continue
						}
						if err == nil || got != "" {
							bad++
							t.Errorf("%s: source failed after %d of %d bytes but NewMnemonic returned (%q, %v) - a mnemonic from a partially filled buffer",
								id, k+j, size, got, err)
							continue
						}
						// same error as io.ReadFull would give
						wantErr := kind.err
						if kind.err == io.EOF && k+j > 0 {
							wantErr = io.ErrUnexpectedEOF
						}
						if err != wantErr {
							bad++
							t.Errorf("%s: error = %v, want %v", id, err, wantErr)
						}
					}
				}
			}
		}
	}
}

// Successful deliveries in pieces: every split into two reads, plus one-byte
// reads with empty reads in between. The result must encode exactly the first
// 4n/3 bytes of the stream, each request must ask for exactly what is still
// outstanding, and nothing more may be consumed.
func TestDemoC06Fragmentation(t *testing.T) {
	saved := cryptoRander
	defer func() { cryptoRander = saved }()

	for _, words := range []int{12, 15, 18, 21, 24} {
		size := words / 3 * 4
		want, _ := NewMnemonicByEntropy(demoStream()[:size], English)
		var scripts [][]demoStep
		for a := 1; a < size; a++ {
			scripts = append(scripts, []demoStep{{a, nil}, {size - a, nil}})
			scripts = append(scripts, []demoStep{{a, nil}, {0, nil}, {size - a, nil}})
		}
		var ones []demoStep
		for x := 0; x < size; x++ {
			ones = append(ones, demoStep{1, nil}, demoStep{0, nil})
		}
		scripts = append(scripts, ones)
		for _, sc := range scripts {
			src := &demoSource{data: demoStream(), steps: sc}
			cryptoRander = src
			got, err := NewMnemonic(words, English)
			if err != nil || got != want {
				t.Errorf("words=%d script=%v: got (%q, %v), want (%q, nil)", words, sc, got, err, want)
				continue
			}
			if len(strings.Fields(got)) != words {
				t.Errorf("words=%d: %d words", words, len(strings.Fields(got)))
			}
			if src.pos != size {
				t.Errorf("words=%d script=%v: consumed %d bytes, want %d", words, sc, src.pos, size)
			}
			left := size
			for i, a := range src.asked {
				if a != left {
					t.Errorf("words=%d script=%v: read %d asked for %d bytes, %d outstanding", words, sc, i, a, left)
					break
				}
				if i < len(sc) {
					left -= sc[i].n
				}
			}
		}
	}
}
