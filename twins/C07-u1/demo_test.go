package bip39

// Demonstration for twin pair 1 (property C07).
//
// The process-wide crypto/rand.Reader is replaced by a simulated kernel device
// and the package source is pointed at that very same value, so that the
// library sees "the default, un-swapped source" (cryptoRander == rand.Reader).
// The device numbers its bytes and, for the call under test, hands out fewer
// bytes than asked for on its first Read (a short read, which io.Reader
// allows); all later Reads deliver exactly what is asked.
//
// Whatever the split point, NewMnemonic must return the BIP39 encoding of the
// next 4n/3 bytes of the device and must have consumed exactly those bytes.

import (
	"crypto/rand"
	"fmt"
	"testing"
)

type shortDevice struct {
	pos   int // bytes handed out so far
	first int // size of the next Read's delivery if >= 0, then reset to -1
	reads int
}

func deviceByte(i int) byte { return byte(i*73 + 41 + i/256) }

func (d *shortDevice) Read(p []byte) (int, error) {
	d.reads++
	n := len(p)
	if d.first >= 0 {
		if d.first < n {
			n = d.first
		}
		d.first = -1
	}
	for i := 0; i < n; i++ {
		p[i] = deviceByte(d.pos + i)
	}
	d.pos += n
	return n, nil
}

func (d *shortDevice) peek(n int) []byte {
	b := make([]byte, n)
	for i := range b {
		b[i] = deviceByte(d.pos + i)
	}
	return b
}

func TestDemoC07DefaultSourceShortRead(t *testing.T) {
	dev := &shortDevice{first: -1}

	savedOS, savedPkg := rand.Reader, cryptoRander
	rand.Reader, cryptoRander = dev, dev
	defer func() { rand.Reader, cryptoRander = savedOS, savedPkg }()

	langs := []Language{English, Japanese, ChineseSimplified, Czech}
	bad := 0
	for _, words := range []int{12, 15, 18, 21, 24} {
		size := words / 3 * 4
		for split := -1; split < size; split++ { // -1: no short read at all
			lang := langs[(words+split+1)%len(langs)]
			dev.first = split
			start := dev.pos
			want, err := NewMnemonicByEntropy(dev.peek(size), lang)
			if err != nil {
				t.Fatal(err)
			}
			got, err := NewMnemonic(words, lang)
			if err != nil {
				t.Errorf("words=%d split=%d: unexpected error %v", words, split, err)
				bad++
				continue
			}
			if got != want {
				bad++
				if bad <= 5 {
					t.Errorf("words=%d first-read=%d bytes: mnemonic is not the encoding of the %d bytes the default source delivered\n got  %s\n want %s", words, split, size, got, want)
				}
			}
			if used := dev.pos - start; used != size {
				bad++
				if bad <= 5 {
					t.Errorf("words=%d first-read=%d bytes: consumed %d bytes of the default source, want %d", words, split, used, size)
				}
			}
		}
	}
	if bad > 0 {
		t.Errorf("%s", fmt.Sprintf("%d deviations in total", bad))
	}
}
