package bip39

// Demonstration for twin pair 1 (property C07).
//
// Many goroutines ask for 24-word mnemonics at the same time while the
// default randomness source is in place. Every mnemonic is decoded back to
// its 32 entropy bytes, and those bytes are compared with the byte stream that
// the global math/rand generator produces for the seed installed at the start
// of the test. Entropy that really comes from crypto/rand.Reader matches a
// window of that stream with probability ~2^-240; a match therefore proves
// that NewMnemonic substituted math/rand output for the OS CSPRNG.
//
// Run it alone (-run TestDemoC07): the other tests of the package replace the
// source and do not put it back.

import (
	crand "crypto/rand"
	"math/big"
	mrand "math/rand"
	"runtime"
	"strings"
	"sync"
	"testing"

	"github.com/islishude/bip39/internal/wordlist"
)

func demoEntropy(t *testing.T, idx map[string]int64, m string) [32]byte {
	words := strings.Split(m, " ")
	if len(words) != 24 {
		t.Fatalf("want 24 words, got %d: %q", len(words), m)
	}
	v := new(big.Int)
	for _, w := range words {
		i, ok := idx[w]
		if !ok {
			t.Fatalf("unknown word %q", w)
		}
		v.Lsh(v, 11)
		v.Or(v, big.NewInt(i))
	}
	v.Rsh(v, 8) // drop the checksum
	var out [32]byte
	v.FillBytes(out[:])
	return out
}

func TestDemoC07(t *testing.T) {
	if cryptoRander != crand.Reader {
		t.Fatalf("default source is not crypto/rand.Reader (run this test alone)")
	}
	idx := make(map[string]int64, 2048)
	for i, w := range wordlist.English {
		idx[w] = int64(i)
	}

	const seed = 20240607
	mrand.Seed(seed)

	workers := 4 * runtime.GOMAXPROCS(0)
	if workers < 16 {
		workers = 16
	}
	const perWorker = 4000

	results := make([][]string, workers)
	var wg sync.WaitGroup
	start := make(chan struct{})
	for w := 0; w < workers; w++ {
		wg.Add(1)
		go func(w int) {
			defer wg.Done()
			out := make([]string, 0, perWorker)
			<-start
			for i := 0; i < perWorker; i++ {
				m, err := NewMnemonic(24, English)
				if err != nil {
					t.Errorf("NewMnemonic: %v", err)
					return
				}
				out = append(out, m)
			}
			results[w] = out
		}(w)
	}
	close(start)
	wg.Wait()
	if t.Failed() {
		return
	}

	// Every 32-byte window the global math/rand stream can have produced.
	replica := mrand.New(mrand.NewSource(seed))
	weak := make(map[[32]byte]int, workers*perWorker)
	for i := 0; i < workers*perWorker; i++ {
		var b [32]byte
		replica.Read(b[:])
		weak[b] = i
	}

	seen := make(map[[32]byte]bool, workers*perWorker)
	bad, dup := 0, 0
	for _, rs := range results {
		for _, m := range rs {
			e := demoEntropy(t, idx, m)
			if pos, ok := weak[e]; ok {
				if bad == 0 {
					t.Errorf("C07 violated: mnemonic entropy %x is window %d of math/rand seeded with %d, not OS randomness", e, pos, seed)
				}
				bad++
			}
			if seen[e] {
				dup++
			}
			seen[e] = true
			if cryptoRander != crand.Reader {
				t.Fatalf("C07 violated: source is no longer crypto/rand.Reader")
			}
		}
	}
	if bad > 0 || dup > 0 {
		t.Errorf("C07 violated: %d of %d mnemonics built from math/rand bytes, %d duplicates", bad, workers*perWorker, dup)
	}
}
