package bip39_test

// Demonstration for twin pair 1 (property C13).
//
// The verdict of CheckMnemonic / IsMnemonicValid must not depend on how long
// ago, or whether, a language was used before. The test validates a mnemonic
// in a few languages, leaves the package idle for longer than the idle TTL of
// the lookup tables (2 s in both twins) and asks exactly the same questions
// again, several times over.

import (
	"fmt"
	"testing"
	"time"

	"github.com/islishude/bip39"
)

func TestDemoVerdictsSurviveIdlePeriods(t *testing.T) {
	langs := []bip39.Language{
		bip39.French, bip39.Japanese, bip39.English, bip39.Korean, bip39.ChineseSimplified,
	}
	entropy := []byte{
		0x15, 0x78, 0xce, 0x68, 0xfa, 0x99, 0x78, 0x5d,
		0x7f, 0x42, 0x29, 0x71, 0x44, 0x72, 0xf2, 0x07,
	}

	type question struct {
		lang     bip39.Language
		mnemonic string
	}
	var questions []question
	for _, lg := range langs {
		m, err := bip39.NewMnemonicByEntropy(entropy, lg)
		if err != nil {
			t.Fatalf("NewMnemonicByEntropy(%v): %v", lg, err)
		}
		questions = append(questions, question{lg, m})
	}
	// every mnemonic against every language: valid on the diagonal, an error elsewhere
	ask := func() map[string]string {
		answers := map[string]string{}
		for _, q := range questions {
			for _, lg := range langs {
				err := bip39.CheckMnemonic(q.mnemonic, lg)
				ok := bip39.IsMnemonicValid(q.mnemonic, lg)
				answers[fmt.Sprintf("%v mnemonic checked as %v", q.lang, lg)] = fmt.Sprintf("err=%v valid=%v", err, ok)
			}
		}
		return answers
	}

	want := ask()
	for _, q := range questions {
		for _, lg := range langs {
			if got := bip39.IsMnemonicValid(q.mnemonic, lg); got != (q.lang == lg) {
				t.Fatalf("fresh process: IsMnemonicValid(%v mnemonic, %v) = %v", q.lang, lg, got)
			}
		}
	}

	for round, idle := range []time.Duration{2500 * time.Millisecond, 100 * time.Millisecond, 3 * time.Second} {
		time.Sleep(idle)
		got := ask()
		for k := range want {
			if got[k] != want[k] {
				t.Errorf("round %d, after %v idle, %s:\n  got  %s\n  want %s", round, idle, k, got[k], want[k])
			}
		}
		// a different language is the first one used after the next pause
		questions = append(questions[1:], questions[0])
		langs = append(langs[1:], langs[0])
	}
}
