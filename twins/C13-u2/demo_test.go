package bip39_test

import (
	"bytes"
	"testing"

	"github.com/islishude/bip39"
)

var demoLangs = []bip39.Language{
	bip39.ChineseSimplified, bip39.ChineseTraditional, bip39.English, bip39.French, bip39.Italian,
	bip39.Japanese, bip39.Korean, bip39.Spanish, bip39.Czech, bip39.Portuguese,
}

func demoMaterial(seed int) []byte {
	b := make([]byte, 64)
	for i := range b {
		b[i] = byte(37*i + 11*seed + 5)
	}
	return b
}

// C13: the caller's memory is never written. The entropy argument is a window
// into a larger buffer here (capacity > length), as it is when a caller carves
// several secrets out of one block of key material; neither the window nor
// anything else in the block may change.
func TestDemoC13CallerBlockUntouched(t *testing.T) {
	for seed, lang := range demoLangs {
		for size := 16; size <= 32; size += 4 {
			for off := 0; off+size <= 64; off += 8 {
				block := demoMaterial(seed + off)
				snapshot := append([]byte(nil), block...)

				window := block[off : off+size] // cap(window) = 64-off
				if _, err := bip39.NewMnemonicByEntropy(window, lang); err != nil {
					t.Fatal(err)
				}
				if !bytes.Equal(block, snapshot) {
					for i := range block {
						if block[i] != snapshot[i] {
							t.Fatalf("NewMnemonicByEntropy(block[%d:%d] (cap %d), %v) changed the caller's block at index %d: %#02x -> %#02x",
								off, off+size, cap(window), lang, i, snapshot[i], block[i])
						}
					}
				}
			}
		}
	}
}

// C13: the result of a call depends on its arguments only, not on earlier
// calls. Two halves of one 64-byte block are encoded one after the other; the
// mnemonic of the second half must be the one obtained from a private copy of
// that half in isolation.
func TestDemoC13SecondHalfIndependentOfFirst(t *testing.T) {
	for seed, lang := range demoLangs {
		for size := 16; size <= 32; size += 4 {
			block := demoMaterial(100 + seed)
			first, second := block[:size], block[size:2*size]

			want, err := bip39.NewMnemonicByEntropy(append([]byte(nil), second...), lang)
			if err != nil {
				t.Fatal(err)
			}
			if _, err := bip39.NewMnemonicByEntropy(first, lang); err != nil {
				t.Fatal(err)
			}
			got, err := bip39.NewMnemonicByEntropy(second, lang)
			if err != nil {
				t.Fatal(err)
			}
			if got != want {
				t.Fatalf("%d-byte entropy, %v: mnemonic of block[%d:%d] differs after block[:%d] was encoded first\n got: %s\nwant: %s",
					size, lang, size, 2*size, size, got, want)
			}
		}
	}
}

// Control: with cap == len (what make and hex.DecodeString give) nothing can be
// observed; this part passes on every variant.
func TestDemoC13ExactCapacityControl(t *testing.T) {
	for seed, lang := range demoLangs {
		for size := 16; size <= 32; size += 4 {
			ent := append([]byte(nil), demoMaterial(seed)[:size]...)
			ent = ent[:size:size]
			snapshot := append([]byte(nil), ent...)
			if _, err := bip39.NewMnemonicByEntropy(ent, lang); err != nil {
				t.Fatal(err)
			}
			if !bytes.Equal(ent, snapshot) {
				t.Fatalf("entropy of %d bytes modified", size)
			}
		}
	}
}
