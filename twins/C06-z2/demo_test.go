package bip39

// Demonstration for twin pair 2 (property C06).
//
// Run:  go test -count=1 -run 'TestDemoC06' .
//
// The source is injected through the package-level variable cryptoRander
// (internal test, no build tag needed).

import (
	"errors"
	"io"
	"testing"
)

// dyingSource delivers data in reads of at most chunk bytes. The Read that
// hands out the last byte of data returns fail ALONGSIDE those bytes if
// alongside is set; otherwise fail is returned by the following Read with 0
// bytes. Once it has failed it keeps failing.
type dyingSource struct {
	data      []byte
	chunk     int
	fail      error
	alongside bool
	delivered int
}

func (s *dyingSource) Read(p []byte) (int, error) {
	if len(s.data) == 0 {
		return 0, s.fail
	}
	n := s.chunk
	if n > len(p) {
		n = len(p)
	}
	if n > len(s.data) {
		n = len(s.data)
	}
	copy(p, s.data[:n])
	s.data = s.data[n:]
	s.delivered += n
	if len(s.data) == 0 && s.alongside {
		return n, s.fail
	}
	return n, nil
}

func demoBytes(n int) []byte {
	b := make([]byte, n)
	for i := range b {
		b[i] = byte(0x5A ^ (i*29 + 7))
	}
	return b
}

func withSource(r io.Reader, f func()) {
	prev := cryptoRander
	cryptoRander = r
	defer func() { cryptoRander = prev }()
	f()
}

// A source that fails after k < 4n/3 bytes must give ("", err), whatever the
// error is and whether or not it arrives together with the last bytes.
func TestDemoC06FailClosed(t *testing.T) {
	boom := errors.New("entropy device failed")
	for _, words := range []int{12, 15, 18, 21, 24} {
		size := words + words/3
		for k := 0; k < size; k++ {
			for _, fail := range []error{io.EOF, io.ErrUnexpectedEOF, boom} {
				for _, alongside := range []bool{false, true} {
					for _, chunk := range []int{size, 5, 1} {
						src := &dyingSource{data: demoBytes(k), chunk: chunk, fail: fail, alongside: alongside}
						var got string
						var err error
						withSource(src, func() { got, err = NewMnemonic(words, English) })
						if err == nil || got != "" {
							t.Errorf("n=%d: source fails (%v, with bytes alongside: %v) after %d of %d bytes, read size %d:\n got (%q, %v), want (\"\", non-nil error)",
								words, fail, alongside, k, size, chunk, got, err)
						}
						if k > 0 && fail == io.EOF && err != nil && err != io.ErrUnexpectedEOF {
							t.Errorf("n=%d k=%d: error = %v, want io.ErrUnexpectedEOF", words, k, err)
						}
					}
				}
			}
		}
	}
}

// Sanity: a complete delivery is encoded exactly, however fragmented, even if
// an error accompanies the very last bytes, and nothing more is consumed.
func TestDemoC06CompleteDelivery(t *testing.T) {
	boom := errors.New("entropy device failed")
	for _, words := range []int{12, 15, 18, 21, 24} {
		size := words + words/3
		data := demoBytes(size)
		want, err := NewMnemonicByEntropy(data, English)
		if err != nil {
			t.Fatal(err)
		}
		for chunk := 1; chunk <= size; chunk++ {
			for _, alongside := range []bool{false, true} {
				src := &dyingSource{data: append([]byte(nil), data...), chunk: chunk, fail: boom, alongside: alongside}
				var got string
				withSource(src, func() { got, err = NewMnemonic(words, English) })
				if err != nil || got != want {
					t.Errorf("n=%d read size %d: got (%q, %v), want (%q, nil)", words, chunk, got, err, want)
				}
				if src.delivered != size {
					t.Errorf("n=%d read size %d: consumed %d bytes, want %d", words, chunk, src.delivered, size)
				}
			}
		}
	}
}
