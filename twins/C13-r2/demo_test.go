package bip39_test

// Demonstration for twin pair 2 (property C13).
//
// What a call returns must not depend on how many calls were made before it.
// The test records the mnemonic of a fixed entropy in every language at the
// start, then keeps the package busy (a bit more than a thousand operations
// per language, all on the same arguments) and compares every single answer
// with the recorded one.

import (
	"bytes"
	"testing"

	"github.com/islishude/bip39"
)

func TestDemoAnswersDoNotDependOnCallCount(t *testing.T) {
	langs := []bip39.Language{
		bip39.ChineseSimplified, bip39.ChineseTraditional, bip39.English, bip39.French,
		bip39.Italian, bip39.Japanese, bip39.Korean, bip39.Spanish, bip39.Czech, bip39.Portuguese,
	}
	entropy := []byte{
		21, 120, 206, 104, 250, 153, 120, 93,
		127, 66, 41, 113, 68, 114, 242, 7,
	}
	pristine := append([]byte(nil), entropy...)

	want := map[bip39.Language]string{}
	for _, lg := range langs {
		m, err := bip39.NewMnemonicByEntropy(entropy, lg)
		if err != nil {
			t.Fatalf("NewMnemonicByEntropy(%v): %v", lg, err)
		}
		if err := bip39.CheckMnemonic(m, lg); err != nil {
			t.Fatalf("fresh process: CheckMnemonic(%v): %v", lg, err)
		}
		want[lg] = m
	}
	if want[bip39.English] != "betray shoe olive vivid nurse concert wonder early image castle route avocado" {
		t.Fatalf("English mnemonic: %q", want[bip39.English])
	}

	ops := len(langs) * 2
	for _, lg := range langs {
		for i := 0; i < 600; i++ {
			ops += 2
			got, err := bip39.NewMnemonicByEntropy(entropy, lg)
			if err != nil || got != want[lg] {
				t.Fatalf("operation %d of this test: NewMnemonicByEntropy(%v) = %q, %v\n  want %q", ops-1, lg, got, err, want[lg])
			}
			if err := bip39.CheckMnemonic(want[lg], lg); err != nil {
				t.Fatalf("operation %d of this test: CheckMnemonic(%v) = %v, want nil", ops, lg, err)
			}
		}
	}
	// and once more round-robin, now that every language has been busy
	for _, lg := range langs {
		got, err := bip39.NewMnemonicByEntropy(entropy, lg)
		if err != nil || got != want[lg] {
			t.Errorf("final round: NewMnemonicByEntropy(%v) = %q, %v\n  want %q", lg, got, err, want[lg])
		}
		if !bip39.IsMnemonicValid(want[lg], lg) {
			t.Errorf("final round: IsMnemonicValid(%v) = false", lg)
		}
	}
	if !bytes.Equal(entropy, pristine) {
		t.Errorf("entropy was modified")
	}
}
