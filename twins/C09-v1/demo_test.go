package bip39

// Demonstration for C09, pair 1 (plan cache keyed by language and word count).
//
// Run: go test -count=1 -run TestDemoC09SizesAfterWarmUp .
//
// The size check must not depend on what the process has done before: after
// every valid (language, size) combination has been used once, a dense range
// of word counts / entropy lengths (well beyond 256) plus the extremes of int
// must still be rejected with the sentinel errors, without touching the
// randomness source.

import (
	"errors"
	"io"
	"math"
	"strings"
	"testing"
)

type demoCountingSource struct {
	calls int
	bytes int
}

func (s *demoCountingSource) Read(p []byte) (int, error) {
	s.calls++
	for i := range p {
		p[i] = byte(s.bytes + i)
	}
	s.bytes += len(p)
	return len(p), nil
}

var _ io.Reader = (*demoCountingSource)(nil)

func TestDemoC09SizesAfterWarmUp(t *testing.T) {
	prev := cryptoRander
	defer func() { cryptoRander = prev }()
	src := &demoCountingSource{}
	cryptoRander = src

	langs := []Language{
		ChineseSimplified, ChineseTraditional, English, French, Italian,
		Japanese, Korean, Spanish, Czech, Portuguese,
	}
	validWords := map[int]bool{12: true, 15: true, 18: true, 21: true, 24: true}

	// warm-up: every valid combination once, through both entry points
	for _, lg := range langs {
		for w := range validWords {
			if m, err := NewMnemonic(w, lg); err != nil || m == "" {
				t.Fatalf("warm-up NewMnemonic(%d, %v) = %q, %v", w, lg, m, err)
			}
			if m, err := NewMnemonicByEntropy(make([]byte, w/3*4), lg); err != nil || m == "" {
				t.Fatalf("warm-up NewMnemonicByEntropy(len %d, %v) = %q, %v", w/3*4, lg, m, err)
			}
		}
	}

	counts := []int{
		math.MinInt64, math.MinInt64 + 12, math.MinInt32, -1 << 32, -1<<32 + 12, -1<<16 + 12,
		1<<16 + 12, 1<<16 + 24, 1<<31 + 12, 1<<32 + 12, 1<<32 + 24, 1<<62 + 12,
		math.MaxInt32, math.MaxInt64, math.MaxInt64 - 2,
	}
	for w := -1100; w <= 1100; w++ {
		counts = append(counts, w)
	}

	failures := 0
	for _, lg := range langs {
		for _, w := range counts {
			before := *src
			m, err := NewMnemonic(w, lg)
			used := src.bytes - before.bytes
			if validWords[w] {
				sep := " "
				if lg == Japanese {
					sep = "　"
				}
				if err != nil || len(strings.Split(m, sep)) != w || used != w/3*4 {
					t.Errorf("NewMnemonic(%d, %v) = %q, %v (source bytes used %d)", w, lg, m, err, used)
					failures++
				}
				continue
			}
			if m != "" || !errors.Is(err, ErrWordLen) || used != 0 || src.calls != before.calls {
				t.Errorf("NewMnemonic(%d, %v) = %q, %v (source bytes used %d); want \"\", ErrWordLen, source untouched",
					w, lg, m, err, used)
				failures++
			}
			if failures > 20 {
				t.Fatal("too many failures")
			}
		}

		for n := 0; n <= 4200; n++ {
			var ent []byte // nil for n == 0
			if n > 0 {
				ent = make([]byte, n)
			}
			m, err := func() (m string, err error) {
				defer func() {
					if r := recover(); r != nil {
						err = errors.New("panic")
					}
				}()
				return NewMnemonicByEntropy(ent, lg)
			}()
			valid := n >= 16 && n <= 32 && n%4 == 0
			if valid {
				if err != nil || m == "" {
					t.Errorf("NewMnemonicByEntropy(len %d, %v) = %q, %v", n, lg, m, err)
					failures++
				}
				continue
			}
			if m != "" || !errors.Is(err, ErrEntropyLen) {
				t.Errorf("NewMnemonicByEntropy(len %d, %v) = %q, %v; want \"\", ErrEntropyLen", n, lg, m, err)
				failures++
			}
			if failures > 20 {
				t.Fatal("too many failures")
			}
		}
	}
}
