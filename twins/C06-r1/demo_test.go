package bip39

// Demonstration for twin pair 1 (property C06): a randomness source that
// first STALLS for longer than the slow-read threshold (2 s) and then FAILS
// must still make NewMnemonic return ("", err) - never a mnemonic built from
// the partially filled buffer.
//
//	go test -count=1 -run 'TestDemoC06' -v .
//
// Passes on the unchanged code and on "good", fails on "bad". Takes ~15 s.

import (
	"errors"
	"io"
	"testing"
	"time"
)

// demoStall is a little longer than the slow-read threshold of the twins.
const demoStall = 2100 * time.Millisecond

type demoStep struct {
	wait time.Duration // sleep before answering
	data []byte        // bytes delivered by this Read (cut to len(p))
	err  error         // error returned by this Read
}

// demoSource answers successive Read calls with the scripted steps and then
// keeps answering with (0, lastErr).
type demoSource struct {
	steps []demoStep
	i     int
	reads int
}

func (s *demoSource) Read(p []byte) (int, error) {
	s.reads++
	if s.i >= len(s.steps) {
		return 0, io.EOF
	}
	st := &s.steps[s.i]
	if st.wait > 0 {
		time.Sleep(st.wait)
		st.wait = 0
	}
	n := copy(p, st.data)
	st.data = st.data[n:]
	if len(st.data) > 0 {
		return n, nil
	}
	s.i++
	return n, st.err
}

func demoBytes(n int, salt byte) []byte {
	b := make([]byte, n)
	for i := range b {
		b[i] = salt + byte(i)*7
	}
	return b
}

var errDemoDevice = errors.New("demo: entropy device failed")

func TestDemoC06SlowFailingSource(t *testing.T) {
	saved := cryptoRander
	defer func() { cryptoRander = saved }()

	langs := []Language{English, Japanese, Spanish, Korean, Czech}

	// 1. sanity: fast failures at some points (passes everywhere)
	for i, words := range []int{12, 15, 18, 21, 24} {
		need := words + words/3
		for _, k := range []int{0, 1, need / 2, need - 1} {
			src := &demoSource{steps: []demoStep{{data: demoBytes(k, 3), err: nil}, {err: errDemoDevice}}}
			if k == 0 {
				src.steps = src.steps[1:]
			}
			cryptoRander = src
			got, err := NewMnemonic(words, langs[i])
			if got != "" || !errors.Is(err, errDemoDevice) {
				t.Errorf("fast failure, %d words, %d of %d bytes delivered: got (%q, %v), want (\"\", %v)", words, k, need, got, err, errDemoDevice)
			}
		}
	}

	// 2. a slow but complete, fragmented delivery gives the encoding of the delivered bytes
	{
		ent := demoBytes(32, 11)
		src := &demoSource{steps: []demoStep{
			{data: ent[:5]},
			{wait: demoStall, data: ent[5:6]},
			{data: ent[6:31]},
			{data: ent[31:]},
			{data: demoBytes(64, 99)},
		}}
		cryptoRander = src
		want, _ := NewMnemonicByEntropy(ent, French)
		got, err := NewMnemonic(24, French)
		if err != nil || got != want {
			t.Errorf("slow complete delivery: got (%q, %v), want (%q, nil)", got, err, want)
		}
	}

	// 3. the point: stall, then fail, before 4n/3 bytes have arrived
	type slowCase struct {
		words   int
		k       int   // bytes delivered before the stall
		along   int   // bytes delivered together with the error
		fail    error // error of the failing read
		wantErr error
	}
	cases := []slowCase{
		{words: 12, k: 7, fail: io.EOF, wantErr: io.ErrUnexpectedEOF},
		{words: 15, k: 0, fail: io.EOF, wantErr: io.EOF},
		{words: 18, k: 23, fail: errDemoDevice, wantErr: errDemoDevice},
		{words: 21, k: 10, along: 9, fail: errDemoDevice, wantErr: errDemoDevice},
		{words: 24, k: 1, along: 30, fail: io.ErrUnexpectedEOF, wantErr: io.ErrUnexpectedEOF},
	}
	for i, c := range cases {
		need := c.words + c.words/3
		ent := demoBytes(need, byte(40+i))
		src := &demoSource{}
		if c.k > 0 {
			src.steps = append(src.steps, demoStep{data: ent[:c.k]})
		}
		src.steps = append(src.steps,
			demoStep{wait: demoStall, data: ent[c.k : c.k+c.along], err: c.fail},
			demoStep{err: c.fail})
		cryptoRander = src
		start := time.Now()
		got, err := NewMnemonic(c.words, langs[i])
		if got != "" || err == nil {
			t.Errorf("C06 VIOLATED: %d words, source stalled %v and then failed (%v) after %d of %d bytes: got (%q, %v), want (\"\", %v)",
				c.words, time.Since(start).Round(time.Millisecond), c.fail, c.k+c.along, need, got, err, c.wantErr)
			if got != "" {
				pad := make([]byte, need)
				copy(pad, ent[:c.k+c.along])
				if z, _ := NewMnemonicByEntropy(pad, langs[i]); z == got {
					t.Logf("  ... and that mnemonic is the encoding of the %d delivered bytes padded with %d zero bytes", c.k+c.along, need-c.k-c.along)
				}
			}
			continue
		}
		if !errors.Is(err, c.wantErr) {
			t.Errorf("%d words, slow failing source: error = %v, want %v", c.words, err, c.wantErr)
		}
	}
}
