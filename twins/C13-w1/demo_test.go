package bip39_test

import (
	"fmt"
	"testing"

	"github.com/islishude/bip39"
)

// C13: the outcome of CheckMnemonic / IsMnemonicValid is a function of the
// arguments alone. In particular a call that FAILED with an unknown word at a
// late position (after earlier words were already decoded) must leave nothing
// behind that changes the verdict of the next call.
func TestDemoC13FailedCheckLeavesNoResidue(t *testing.T) {
	const (
		// vector from the existing suite: valid
		valid = "check fiscal fit sword unlock rough lottery tool sting pluck bulb random"
		// 11 x index 0 followed by "wrong": checksum incorrect ("zoo x11 wrong" is the valid one)
		invalid = "abandon abandon abandon abandon abandon abandon abandon abandon abandon abandon abandon wrong"
		// eleven known words (all bits set) and an unknown word at position 11
		poison = "zoo zoo zoo zoo zoo zoo zoo zoo zoo zoo zoo notaword"
	)
	show := func(err error) string {
		if err == nil {
			return "<nil>"
		}
		return err.Error()
	}

	// verdicts before any failing call
	if err := bip39.CheckMnemonic(valid, bip39.English); err != nil {
		t.Fatalf("fresh: valid mnemonic rejected: %v", err)
	}
	if err := bip39.CheckMnemonic(invalid, bip39.English); err != bip39.ErrChecksumIncorrect {
		t.Fatalf("fresh: want ErrChecksumIncorrect for the invalid mnemonic, got %v", show(err))
	}

	// repeated, because recycled scratch objects (sync.Pool etc.) are handed
	// back only most of the time
	for round := 0; round < 64; round++ {
		err := bip39.CheckMnemonic(poison, bip39.English)
		want := fmt.Sprintf("word `%s` at `%d` not found in mnemonic mapping", "notaword", 11)
		if err == nil || err.Error() != want {
			t.Fatalf("round %d: poison call: got %q want %q", round, show(err), want)
		}
		if err := bip39.CheckMnemonic(valid, bip39.English); err != nil {
			t.Fatalf("round %d: valid mnemonic rejected after a failed check of another mnemonic: %v", round, err)
		}

		_ = bip39.CheckMnemonic(poison, bip39.English)
		if bip39.IsMnemonicValid(invalid, bip39.English) {
			t.Fatalf("round %d: INVALID mnemonic accepted after a failed check of another mnemonic", round)
		}

		_ = bip39.CheckMnemonic(poison, bip39.English)
		if err := bip39.CheckMnemonic(invalid, bip39.English); err != bip39.ErrChecksumIncorrect {
			t.Fatalf("round %d: want ErrChecksumIncorrect, got %v", round, show(err))
		}
	}
}
