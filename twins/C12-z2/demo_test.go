package bip39_test

// Demonstration for C12 (pair 2): concurrent callers must not disturb each
// other, whatever mix of calls they make - in particular also when some of
// the mnemonics that are checked contain a word that is not in the list (a
// typo), which CheckMnemonic rejects on a path of its own.
//
// A group of goroutines validates and creates mnemonics in several languages
// at the same time; every few calls each of them also checks a sentence with
// an unknown word. Every answer is compared with the answer that the same call
// gave when it was run alone, before the goroutines were started.
//
// Run with -race (see RUN.txt): the race detector then reports the problem
// reliably. Without -race the bad twin usually still fails (wrong answers or
// a crash inside math/big), but that depends on timing.

import (
	"bytes"
	"fmt"
	"strings"
	"sync"
	"testing"

	"github.com/islishude/bip39"
)

func TestDemoC12RejectedWordInTheMix(t *testing.T) {
	langs := []bip39.Language{
		bip39.English, bip39.Japanese, bip39.Spanish, bip39.ChineseSimplified,
		bip39.French, bip39.Korean, bip39.Czech, bip39.Italian,
	}
	const workers = 8
	const loops = 1500

	type job struct {
		lang    bip39.Language
		ent     []byte
		valid   string // mnemonic of ent
		typo    string // valid with its last word replaced by an unknown one
		swapped string // valid with two words exchanged
		// the answers when run alone
		wantValid, wantTypo, wantSwapped string
	}
	jobs := make([]*job, workers)
	for w := range jobs {
		j := &job{lang: langs[w%len(langs)]}
		j.ent = bytes.Repeat([]byte{byte(0x21 + 13*w), byte(0x9e - 5*w)}, 8+2*(w%5))
		var err error
		if j.valid, err = bip39.NewMnemonicByEntropy(j.ent, j.lang); err != nil {
			t.Fatal(err)
		}
		words := strings.Fields(j.valid)
		words[len(words)-1] = "zzzz"
		j.typo = strings.Join(words, " ")
		words = strings.Fields(j.valid)
		words[2], words[7] = words[7], words[2]
		j.swapped = strings.Join(words, " ")

		j.wantValid = fmt.Sprint(bip39.CheckMnemonic(j.valid, j.lang))
		j.wantTypo = fmt.Sprint(bip39.CheckMnemonic(j.typo, j.lang))
		j.wantSwapped = fmt.Sprint(bip39.CheckMnemonic(j.swapped, j.lang))
		if !strings.Contains(j.wantTypo, "zzzz") {
			t.Fatalf("%v: unknown word not reported: %s", j.lang, j.wantTypo)
		}
		jobs[w] = j
	}

	var (
		wg    sync.WaitGroup
		start = make(chan struct{})
		mu    sync.Mutex
		diffs []string
	)
	report := func(j *job, call, got, want string) {
		mu.Lock()
		defer mu.Unlock()
		if len(diffs) < 10 {
			diffs = append(diffs, fmt.Sprintf("%v %s: got %q concurrently, but %q when run alone", j.lang, call, got, want))
		}
	}
	for w := 0; w < workers; w++ {
		wg.Add(1)
		go func(j *job) {
			defer wg.Done()
			<-start
			for i := 0; i < loops; i++ {
				if i%4 == 0 {
					if got := fmt.Sprint(bip39.CheckMnemonic(j.typo, j.lang)); got != j.wantTypo {
						report(j, "CheckMnemonic(typo)", got, j.wantTypo)
					}
				}
				if got := fmt.Sprint(bip39.CheckMnemonic(j.valid, j.lang)); got != j.wantValid {
					report(j, "CheckMnemonic(valid)", got, j.wantValid)
				}
				if got, err := bip39.NewMnemonicByEntropy(j.ent, j.lang); err != nil || got != j.valid {
					report(j, "NewMnemonicByEntropy", got+" "+fmt.Sprint(err), j.valid+" <nil>")
				}
				if got := fmt.Sprint(bip39.CheckMnemonic(j.swapped, j.lang)); got != j.wantSwapped {
					report(j, "CheckMnemonic(swapped)", got, j.wantSwapped)
				}
				if got := bip39.IsMnemonicValid(j.valid, j.lang); fmt.Sprint(got) != fmt.Sprint(j.wantValid == "<nil>") {
					report(j, "IsMnemonicValid(valid)", fmt.Sprint(got), fmt.Sprint(j.wantValid == "<nil>"))
				}
			}
		}(jobs[w])
	}
	close(start)
	wg.Wait()
	for _, d := range diffs {
		t.Error(d)
	}
}
