package bip39

// Demonstration for C07 (default source is crypto/rand.Reader itself and the
// output is a function of that source's bytes only).
//
// The test never injects a source: it puts the value cryptoRander had at
// package initialisation (captured below, before any test could overwrite it)
// back in place and looks at what NewMnemonic produces from it.

import (
	"crypto/rand"
	"fmt"
	"strings"
	"testing"

	"github.com/islishude/bip39/internal/wordlist"
)

// demoInitialSource is the source as it is at process start.
var demoInitialSource = cryptoRander

// demoEntropyOf decodes an English mnemonic back to its entropy bytes.
func demoEntropyOf(t *testing.T, idx map[string]int, m string) []byte {
	t.Helper()
	words := strings.Split(m, " ")
	bits := make([]byte, 0, len(words)*11)
	for _, w := range words {
		i, ok := idx[w]
		if !ok {
			t.Fatalf("word %q not in the English list (mnemonic %q)", w, m)
		}
		for k := 10; k >= 0; k-- {
			bits = append(bits, byte(i>>uint(k))&1)
		}
	}
	n := len(words) / 3 * 4
	ent := make([]byte, n)
	for i := 0; i < n*8; i++ {
		ent[i/8] = ent[i/8]<<1 | bits[i]
	}
	return ent
}

func TestDemoC07DefaultSource(t *testing.T) {
	if demoInitialSource != rand.Reader {
		t.Fatalf("the source at process start is %T %v, not crypto/rand.Reader", demoInitialSource, demoInitialSource)
	}
	saved := cryptoRander
	cryptoRander = demoInitialSource
	defer func() { cryptoRander = saved }()

	idx := make(map[string]int, 2048)
	for i, w := range wordlist.English {
		idx[w] = i
	}

	const samples = 8
	counts := []int{12, 15, 18, 21, 24}
	seen := map[string]bool{}
	// every ordered pair (first, then): one mnemonic of `first` words, then
	// `samples` mnemonics of `then` words. With a CSPRNG behind it, no byte
	// position of the entropy can have the same value in all 8 samples
	// (chance 2^-56 per position), and no mnemonic can ever repeat.
	for _, first := range counts {
		for _, then := range counts {
			if _, err := NewMnemonic(first, English); err != nil {
				t.Fatalf("NewMnemonic(%d): %v", first, err)
			}
			var ents [][]byte
			for s := 0; s < samples; s++ {
				m, err := NewMnemonic(then, English)
				if err != nil {
					t.Fatalf("NewMnemonic(%d): %v", then, err)
				}
				if got := len(strings.Split(m, " ")); got != then {
					t.Fatalf("NewMnemonic(%d) has %d words: %q", then, got, m)
				}
				if seen[m] {
					t.Errorf("default source: mnemonic repeated: %q", m)
				}
				seen[m] = true
				ents = append(ents, demoEntropyOf(t, idx, m))
			}
			var stuck []string
			for pos := 0; pos < then/3*4; pos++ {
				same := true
				for s := 1; s < samples; s++ {
					if ents[s][pos] != ents[0][pos] {
						same = false
						break
					}
				}
				if same {
					stuck = append(stuck, fmt.Sprintf("%d(=0x%02x)", pos, ents[0][pos]))
				}
			}
			if len(stuck) > 0 {
				t.Errorf("default source, %d-word mnemonics after a %d-word one: entropy byte(s) %s identical in all %d samples - not drawn from crypto/rand.Reader",
					then, first, strings.Join(stuck, ","), samples)
			}
		}
	}
	if cryptoRander != rand.Reader {
		t.Errorf("the source changed during the calls: now %T", cryptoRander)
	}
}
