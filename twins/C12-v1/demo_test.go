package bip39

// Demonstration for twin pair 1 (property C12).
//
// Run with:   go test -race -count=1 -run 'TestDemoC12' .
// (-race makes the failure show up as a reported DATA RACE as well, but the
// test also fails without it because valid mnemonics get rejected.)
//
// The parent test re-executes the test binary many times so that every round
// starts from a cold process. Each child first derives one valid mnemonic per
// language (NewMnemonicByEntropy does not touch the lazy lookup tables), then
// releases several goroutines per language at once that all validate "their"
// mnemonic. Run alone every one of these calls returns nil, so any error (or
// a race report, exit status 66) is a violation of C12.

import (
	"fmt"
	"os"
	"os/exec"
	"sync"
	"testing"
)

const demoC12ChildEnv = "BIP39_DEMO_C12_CHILD"

var demoC12Langs = []Language{
	ChineseSimplified, ChineseTraditional, English, French, Italian,
	Japanese, Korean, Spanish, Czech, Portuguese,
}

// TestDemoC12ColdChild is the body of one cold process. It is a no-op unless
// started by TestDemoC12ColdStart.
func TestDemoC12ColdChild(t *testing.T) {
	if os.Getenv(demoC12ChildEnv) == "" {
		t.Skip("helper for TestDemoC12ColdStart")
	}
	const perLang = 6

	entropy := make([]byte, 32)
	for i := range entropy {
		entropy[i] = byte(37*i + 11)
	}
	mnemonics := make([]string, len(demoC12Langs))
	for i, lg := range demoC12Langs {
		m, err := NewMnemonicByEntropy(entropy, lg)
		if err != nil {
			t.Fatal(err)
		}
		mnemonics[i] = m
	}

	var (
		start = make(chan struct{})
		wg    sync.WaitGroup
		mu    sync.Mutex
		bad   []string
	)
	for i, lg := range demoC12Langs {
		for k := 0; k < perLang; k++ {
			wg.Add(1)
			go func(i int, lg Language) {
				defer wg.Done()
				<-start
				err := CheckMnemonic(mnemonics[i], lg)
				valid := IsMnemonicValid(mnemonics[i], lg)
				if err != nil || !valid {
					mu.Lock()
					bad = append(bad, fmt.Sprintf("%v: CheckMnemonic=%v IsMnemonicValid=%v", lg, err, valid))
					mu.Unlock()
				}
			}(i, lg)
		}
	}
	close(start)
	wg.Wait()
	for _, b := range bad {
		t.Errorf("valid mnemonic rejected during concurrent cold start: %s", b)
	}
}

func TestDemoC12ColdStart(t *testing.T) {
	if os.Getenv(demoC12ChildEnv) != "" {
		t.Skip("running as child")
	}
	const rounds = 40
	failures := 0
	for r := 0; r < rounds; r++ {
		cmd := exec.Command(os.Args[0], "-test.run=^TestDemoC12ColdChild$", "-test.count=1")
		cmd.Env = append(os.Environ(), demoC12ChildEnv+"=1")
		if os.Getenv("GORACE") == "" {
			// only skips the race runtime's 1s sleep at process exit
			cmd.Env = append(cmd.Env, "GORACE=atexit_sleep_ms=0")
		}
		out, err := cmd.CombinedOutput()
		if err != nil {
			failures++
			if failures <= 2 {
				t.Errorf("cold process #%d failed: %v\n%s", r, err, out)
			}
		}
	}
	if failures > 0 {
		t.Errorf("%d of %d cold processes misbehaved (wrong result and/or data race)", failures, rounds)
	}
}
