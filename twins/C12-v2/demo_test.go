package bip39

// Demonstration for twin pair 2 (property C12).
//
// Run with:   go test -count=1 -run 'TestDemoC12' .
// (works with and without -race; with -race the bad twin additionally
// produces a DATA RACE report)
//
// Every round first lets ONE NewMnemonic call fail because its randomness
// source breaks down after a few bytes, and then runs several NewMnemonic
// calls concurrently on a working source. The source is a rendezvous reader:
// every Read call gets its own id, waits until all callers are inside Read,
// fills the caller's buffer with its id byte, waits again and returns. Run
// alone, a call whose Read got id k returns the encoding of k,k,k,...; so the
// concurrent results must be exactly the encodings for the ids 1..workers,
// each once.

import (
	"bytes"
	"errors"
	"sort"
	"strings"
	"sync"
	"testing"
	"time"
)

// brokenReader delivers a few bytes and then fails.
type brokenReader struct{ left int }

func (r *brokenReader) Read(p []byte) (int, error) {
	if r.left == 0 {
		return 0, errors.New("demo: entropy device failed")
	}
	n := r.left
	if n > len(p) {
		n = len(p)
	}
	for i := 0; i < n; i++ {
		p[i] = 0xEE
	}
	r.left -= n
	return n, nil
}

type demoBarrier struct {
	mu      sync.Mutex
	want    int
	arrived int
	ch      chan struct{}
}

func newDemoBarrier(n int) *demoBarrier { return &demoBarrier{want: n, ch: make(chan struct{})} }

func (b *demoBarrier) wait() bool {
	b.mu.Lock()
	b.arrived++
	if b.arrived == b.want {
		close(b.ch)
	}
	b.mu.Unlock()
	select {
	case <-b.ch:
		return true
	case <-time.After(5 * time.Second):
		return false
	}
}

// rendezvousReader is safe for concurrent use.
type rendezvousReader struct {
	mu       sync.Mutex
	next     byte
	in, out  *demoBarrier
	timedOut bool
}

func (r *rendezvousReader) Read(p []byte) (int, error) {
	r.mu.Lock()
	r.next++
	id := r.next
	r.mu.Unlock()

	ok1 := r.in.wait() // everybody holds the buffer it is going to use
	for i := range p {
		p[i] = id
	}
	ok2 := r.out.wait() // everybody has delivered its bytes
	if !ok1 || !ok2 {
		r.mu.Lock()
		r.timedOut = true
		r.mu.Unlock()
	}
	return len(p), nil
}

func TestDemoC12ConcurrentAfterSourceFailure(t *testing.T) {
	saved := cryptoRander
	defer func() { cryptoRander = saved }()

	const (
		rounds  = 200
		workers = 4
	)
	sizes := []int{12, 15, 18, 21, 24}
	langs := []Language{
		English, Japanese, ChineseSimplified, ChineseTraditional, French,
		Italian, Korean, Spanish, Czech, Portuguese,
	}

	for round := 0; round < rounds; round++ {
		words := sizes[round%len(sizes)]
		lang := langs[round%len(langs)]
		entLen := words + words/3

		// 1. one call on a source that dies after some bytes: must fail closed
		cryptoRander = &brokenReader{left: 1 + round%(entLen-1)}
		if m, err := NewMnemonic(words, lang); err == nil || m != "" {
			t.Fatalf("round %d: NewMnemonic on a broken source = (%q, %v), want empty string and an error", round, m, err)
		}

		// 2. concurrent calls on a healthy source
		src := &rendezvousReader{in: newDemoBarrier(workers), out: newDemoBarrier(workers)}
		cryptoRander = src
		got := make([]string, workers)
		errs := make([]error, workers)
		var wg sync.WaitGroup
		for w := 0; w < workers; w++ {
			wg.Add(1)
			go func(w int) {
				defer wg.Done()
				got[w], errs[w] = NewMnemonic(words, lang)
			}(w)
		}
		wg.Wait()
		if src.timedOut {
			t.Fatalf("round %d: the concurrent callers did not all reach the source", round)
		}

		want := make([]string, workers)
		for w := 0; w < workers; w++ {
			if errs[w] != nil {
				t.Fatalf("round %d: unexpected error %v", round, errs[w])
			}
			m, err := NewMnemonicByEntropy(bytes.Repeat([]byte{byte(w + 1)}, entLen), lang)
			if err != nil {
				t.Fatal(err)
			}
			want[w] = m
		}
		sort.Strings(got)
		sort.Strings(want)
		if strings.Join(got, "\n") != strings.Join(want, "\n") {
			t.Fatalf("round %d (%d words, %v): concurrent NewMnemonic calls did not return what they return alone\n got:\n  %s\nwant (in any order):\n  %s",
				round, words, lang, strings.Join(got, "\n  "), strings.Join(want, "\n  "))
		}
	}
}
