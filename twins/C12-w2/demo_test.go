package bip39

// Demonstration for twin pair 2 (property C12). Run it with the race detector:
//
//	go test -race -count=1 -run 'TestDemoSeedUnderGC' .
//
// A handful of goroutines derive "their" seed over and over again (each one
// its own mnemonic/passphrase, in different languages) while the garbage
// collector is running all the time, as it does in a busy server. Every call
// must return the value the same call returns when it is run alone, and the
// race detector must stay silent.

import (
	"bytes"
	"fmt"
	"runtime"
	"sync"
	"sync/atomic"
	"testing"
	"time"
)

func TestDemoSeedUnderGC(t *testing.T) {
	const (
		callers  = 8
		duration = 3 * time.Second
	)
	langs := []Language{English, Japanese, Spanish, Korean, French, Czech, ChineseSimplified, Italian}

	type job struct {
		mnemonic, passphrase string
		want                 []byte
	}
	jobs := make([]job, callers)
	for i := range jobs {
		ent := bytes.Repeat([]byte{byte(0x11 * (i + 1))}, 16+4*(i%5))
		m, err := NewMnemonicByEntropy(ent, langs[i%len(langs)])
		if err != nil {
			t.Fatal(err)
		}
		jobs[i] = job{mnemonic: m, passphrase: fmt.Sprintf("pass-%d", i)}
		// what the call returns when it is run alone
		jobs[i].want = MnemonicToSeed(jobs[i].mnemonic, jobs[i].passphrase)
		if len(jobs[i].want) != 64 {
			t.Fatalf("seed of %d bytes", len(jobs[i].want))
		}
	}

	var stop int32
	var wg sync.WaitGroup
	var calls, wrong int64

	// the collector (and with it any finalizer-driven housekeeping)
	wg.Add(1)
	go func() {
		defer wg.Done()
		for atomic.LoadInt32(&stop) == 0 {
			runtime.GC()
			time.Sleep(500 * time.Microsecond)
		}
	}()

	for i := range jobs {
		wg.Add(1)
		go func(j job) {
			defer wg.Done()
			for atomic.LoadInt32(&stop) == 0 {
				got := MnemonicToSeed(j.mnemonic, j.passphrase)
				atomic.AddInt64(&calls, 1)
				if !bytes.Equal(got, j.want) {
					if atomic.AddInt64(&wrong, 1) <= 3 {
						t.Errorf("C12 violated: concurrent MnemonicToSeed returned\n  %x\nalone it returns\n  %x", got, j.want)
					}
				}
				// the caller owns the result: scribbling on it must not matter
				for k := range got {
					got[k] = 0xAA
				}
			}
		}(jobs[i])
	}

	time.Sleep(duration)
	atomic.StoreInt32(&stop, 1)
	wg.Wait()
	t.Logf("%d calls, %d wrong results", atomic.LoadInt64(&calls), atomic.LoadInt64(&wrong))
	if n := atomic.LoadInt64(&wrong); n > 0 {
		t.Errorf("C12 violated: %d of %d concurrent calls returned a wrong seed", n, calls)
	}
}
