package bip39

import (
	"errors"
	"fmt"
	"io"
	"strings"
	"testing"
)

// demoCountingSource delivers a fixed byte pattern and counts what was drawn.
type demoCountingSource struct{ reads, bytes int }

func (s *demoCountingSource) Read(p []byte) (int, error) {
	s.reads++
	for i := range p {
		p[i] = byte(s.bytes + i)
	}
	s.bytes += len(p)
	return len(p), nil
}

func demoCall(f func() (string, error)) (m string, err error, panicked interface{}) {
	defer func() { panicked = recover() }()
	m, err = f()
	return
}

// TestDemoC09WordCounts: NewMnemonic accepts exactly 12,15,18,21,24; every
// other int gives ("", ErrWordLen) and draws nothing from the source.
func TestDemoC09WordCounts(t *testing.T) {
	valid := map[int]bool{12: true, 15: true, 18: true, 21: true, 24: true}

	var counts []int
	for n := -1100; n <= 1100; n++ {
		counts = append(counts, n)
	}
	const maxInt = int(^uint(0) >> 1)
	const minInt = -maxInt - 1
	for _, base := range []int{0, 12, 15, 18, 21, 24} {
		for _, k := range []uint{8, 16, 31, 32, 62} {
			counts = append(counts, base+1<<k, base-1<<k)
		}
		counts = append(counts, maxInt-base, minInt+base)
	}

	prev := cryptoRander
	defer func() { cryptoRander = prev }()

	for _, n := range counts {
		n := n
		src := &demoCountingSource{}
		cryptoRander = io.Reader(src)
		m, err, p := demoCall(func() (string, error) { return NewMnemonic(n, English) })
		if p != nil {
			t.Errorf("NewMnemonic(%d): panic: %v", n, p)
			continue
		}
		if valid[n] {
			if err != nil || len(strings.Fields(m)) != n || src.bytes != n+n/3 {
				t.Errorf("NewMnemonic(%d): got %d words, err=%v, drew %d bytes", n, len(strings.Fields(m)), err, src.bytes)
			}
			continue
		}
		if m != "" || !errors.Is(err, ErrWordLen) || err != ErrWordLen {
			t.Errorf("NewMnemonic(%d): want (\"\", ErrWordLen), got (%q, %v)", n, m, err)
		}
		if src.reads != 0 || src.bytes != 0 {
			t.Errorf("NewMnemonic(%d): rejected size consumed randomness (%d reads, %d bytes)", n, src.reads, src.bytes)
		}
	}
}

// TestDemoC09EntropyLengths: NewMnemonicByEntropy accepts exactly
// 16,20,24,28,32 bytes; nil and every other length give ("", ErrEntropyLen).
func TestDemoC09EntropyLengths(t *testing.T) {
	valid := map[int]bool{16: true, 20: true, 24: true, 28: true, 32: true}

	check := func(name string, entropy []byte) {
		n := len(entropy)
		m, err, p := demoCall(func() (string, error) { return NewMnemonicByEntropy(entropy, English) })
		if p != nil {
			t.Errorf("NewMnemonicByEntropy(%s): panic: %v", name, p)
			return
		}
		if valid[n] {
			if err != nil || len(strings.Fields(m)) != n/4*3 {
				t.Errorf("NewMnemonicByEntropy(%s): got %d words, err=%v", name, len(strings.Fields(m)), err)
			}
			return
		}
		if m != "" || !errors.Is(err, ErrEntropyLen) || err != ErrEntropyLen {
			t.Errorf("NewMnemonicByEntropy(%s): want (\"\", ErrEntropyLen), got (%q, %v)", name, m, err)
		}
	}

	check("nil", nil)
	for n := 0; n <= 1100; n++ {
		check(fmt.Sprintf("%d bytes", n), make([]byte, n))
	}
	for _, n := range []int{1<<16 + 16, 1<<16 + 32, 1<<20 + 24} {
		check(fmt.Sprintf("%d bytes", n), make([]byte, n))
	}
}
