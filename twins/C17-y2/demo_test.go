package bip39_test

// Demonstration for twin pair 2 of C17 (update-wordlist reproduces its input).
//
// The tool is built with -tags verif, so that its fetches are served from a
// local directory (BIP39_VERIF_UPSTREAM), and run in a scratch directory on ten
// made-up upstream lists of letters and combining marks, of various lengths.
// Every generated file must type-check and its list must be exactly the
// non-empty input lines.
//
//	go test -count=1 -run TestDemoC17Layout .

import (
	"fmt"
	"go/ast"
	"go/parser"
	"go/token"
	"go/types"
	"os"
	"os/exec"
	"path/filepath"
	"strconv"
	"strings"
	"testing"
)

var demoTargets = map[string]string{
	"chinese_simplified":  "ChineseSimplified",
	"chinese_traditional": "ChineseTraditional",
	"english":             "English",
	"french":              "French",
	"italian":             "Italian",
	"japanese":            "Japanese",
	"korean":              "Korean",
	"spanish":             "Spanish",
	"czech":               "Czech",
	"portuguese":          "Portuguese",
}

// demoWord makes the i-th word of a made-up list: letters of the script and,
// now and then, a leading or trailing combining mark or a non-BMP letter.
func demoWord(alphabet []rune, i int) string {
	var sb strings.Builder
	if i%7 == 3 {
		sb.WriteRune('\u0301')
	}
	for n := i + len(alphabet); n > 0; n /= len(alphabet) {
		sb.WriteRune(alphabet[n%len(alphabet)])
	}
	switch i % 5 {
	case 1:
		sb.WriteRune('\u3099')
	case 4:
		sb.WriteRune('\U00020BB7')
	}
	return sb.String()
}

// demoList makes an upstream file of n words; blank adds empty lines, final
// terminates the last word with LF.
func demoList(alphabet string, n int, blank, final bool) string {
	var sb strings.Builder
	for i := 0; i < n; i++ {
		if blank && i%4 == 0 {
			sb.WriteString("\n")
		}
		sb.WriteString(demoWord([]rune(alphabet), i))
		if i < n-1 || final {
			sb.WriteString("\n")
		}
	}
	if blank {
		sb.WriteString("\n\n")
	}
	return sb.String()
}

// demoInputs returns the raw upstream file per target: lists of various lengths.
func demoInputs() map[string]string {
	return map[string]string{
		"english":             demoList("abcdefghijklmnopqrstuvwxyz", 2048, false, true),
		"french":              demoList("abcdeéèêàçù", 0, false, false),
		"spanish":             demoList("abcdeñáéíóú", 1, false, true),
		"italian":             demoList("abcdefghilmnopqrstuvz", 9, true, true),
		"czech":               demoList("abcdefghijklmnoprstuvyz", 10, false, true),
		"portuguese":          demoList("abcdefgãõçáéíóú", 11, false, false),
		"japanese":            demoList("あいうえおかきくけこさしすせそ", 20, true, false),
		"korean":              demoList("가각간갇갈감갑값갓강", 25, false, true),
		"chinese_simplified":  demoList("的一是在不了有和人这", 100, false, false),
		"chinese_traditional": demoList("的一是在不了有和人這", 2047, true, true),
	}
}

func nonEmptyLines(s string) []string {
	var out []string
	for _, l := range strings.Split(s, "\n") {
		if l != "" {
			out = append(out, l)
		}
	}
	return out
}

// readList type-checks the generated file and returns the elements of the
// []string composite literal assigned to the package-level variable name.
func readList(file, name string) ([]string, error) {
	fset := token.NewFileSet()
	f, err := parser.ParseFile(fset, file, nil, 0)
	if err != nil {
		return nil, fmt.Errorf("does not parse: %v", err)
	}
	if _, err := (&types.Config{}).Check("wordlist", fset, []*ast.File{f}, nil); err != nil {
		return nil, fmt.Errorf("does not type-check: %v", err)
	}
	if f.Name.Name != "wordlist" {
		return nil, fmt.Errorf("package %s, want wordlist", f.Name.Name)
	}
	for _, d := range f.Decls {
		gd, ok := d.(*ast.GenDecl)
		if !ok || gd.Tok != token.VAR {
			continue
		}
		for _, sp := range gd.Specs {
			vs := sp.(*ast.ValueSpec)
			if len(vs.Names) != 1 || vs.Names[0].Name != name || len(vs.Values) != 1 {
				continue
			}
			cl, ok := vs.Values[0].(*ast.CompositeLit)
			if !ok {
				return nil, fmt.Errorf("%s is not a composite literal", name)
			}
			list := []string{}
			for _, e := range cl.Elts {
				bl, ok := e.(*ast.BasicLit)
				if !ok || bl.Kind != token.STRING {
					return nil, fmt.Errorf("element %d of %s is not a string literal", len(list), name)
				}
				s, err := strconv.Unquote(bl.Value)
				if err != nil {
					return nil, err
				}
				list = append(list, s)
			}
			return list, nil
		}
	}
	return nil, fmt.Errorf("variable %s not found", name)
}

func show(s string) string {
	if len(s) > 40 {
		return fmt.Sprintf("%+q... (%d bytes)", s[:40], len(s))
	}
	return fmt.Sprintf("%+q", s)
}

func runGenerator(t *testing.T, inputs map[string]string, frag string) {
	tmp := t.TempDir()
	tool := filepath.Join(tmp, "update-wordlist.exe")
	build := exec.Command("go", "build", "-tags", "verif", "-o", tool, "./update-wordlist")
	if out, err := build.CombinedOutput(); err != nil {
		t.Fatalf("building the tool: %v\n%s", err, out)
	}

	up := filepath.Join(tmp, "upstream")
	src := filepath.Join(up, "bitcoin", "bips", "master", "bip-0039")
	work := filepath.Join(tmp, "work")
	for _, d := range []string{src, filepath.Join(work, "internal", "wordlist")} {
		if err := os.MkdirAll(d, 0777); err != nil {
			t.Fatal(err)
		}
	}
	for path := range demoTargets {
		if err := os.WriteFile(filepath.Join(src, path+".txt"), []byte(inputs[path]), 0666); err != nil {
			t.Fatal(err)
		}
	}

	cmd := exec.Command(tool)
	cmd.Dir = work
	cmd.Env = append(os.Environ(), "BIP39_VERIF_UPSTREAM="+up)
	if frag != "" {
		cmd.Env = append(cmd.Env, "BIP39_VERIF_FRAG="+frag)
	}
	if out, err := cmd.CombinedOutput(); err != nil {
		t.Fatalf("update-wordlist failed: %v\n%s", err, out)
	}

	for path, name := range demoTargets {
		want := nonEmptyLines(inputs[path])
		got, err := readList(filepath.Join(work, "internal", "wordlist", path+".go"), name)
		if err != nil {
			t.Errorf("%s.go: %v", path, err)
			continue
		}
		if len(got) != len(want) {
			t.Errorf("%s.go: %d words, want %d", path, len(got), len(want))
			continue
		}
		for i := range want {
			if got[i] != want[i] {
				t.Errorf("%s.go: word %d is %s, want %s", path, i, show(got[i]), show(want[i]))
			}
		}
	}
}

func TestDemoC17Layout(t *testing.T) {
	t.Run("whole-reads", func(t *testing.T) { runGenerator(t, demoInputs(), "") })
	t.Run("short-reads", func(t *testing.T) { runGenerator(t, demoInputs(), "7") })
}
