package bip39

// Demonstration for twin pair 2 (property C06).
//
// A scripted randomness source delivers k bytes (in one read, or in one-byte
// reads) and then simply ENDS, in one of the two ways the io.Reader contract
// allows: the last bytes come together with io.EOF, or they come with a nil
// error and the next read returns (0, io.EOF). For every word count n and
// every k < 4n/3 NewMnemonic has to answer ("", non-nil error): io.EOF when
// nothing was delivered, io.ErrUnexpectedEOF otherwise. The other failure
// kinds and successful fragmented deliveries are checked as well.
//
// Run: go test -count=1 -run 'TestDemoC06' .

import (
	"errors"
	"fmt"
	"io"
	"strings"
	"testing"
)

type demoStep struct {
	n   int
	err error
}

// demoSource plays a script of reads over a fixed byte stream; after the
// script it repeats the last error (or, if there was none, goes on delivering).
type demoSource struct {
	data  []byte
	pos   int
	steps []demoStep
	i     int
	asked []int
}

func (s *demoSource) Read(p []byte) (int, error) {
	s.asked = append(s.asked, len(p))
	if s.i >= len(s.steps) {
		if len(s.steps) > 0 && s.steps[len(s.steps)-1].err != nil {
			return 0, s.steps[len(s.steps)-1].err
		}
		n := copy(p, s.data[s.pos:])
		s.pos += n
		return n, nil
	}
	st := s.steps[s.i]
	s.i++
	n := st.n
	if n > len(p) {
		n = len(p)
	}
	n = copy(p[:n], s.data[s.pos:])
	s.pos += n
	return n, st.err
}

func demoStream() []byte {
	b := make([]byte, 64)
	for i := range b {
		b[i] = byte(0xA5 ^ (i*37 + 11))
	}
	return b
}

var errDemoDevice = errors.New("demo: entropy device failed")

// deliver returns script steps that hand out k bytes without error.
func demoDeliver(k int, single bool) []demoStep {
	var steps []demoStep
	if single {
		if k > 0 {
			steps = append(steps, demoStep{k, nil})
		}
		return steps
	}
	for x := 0; x < k; x++ {
		steps = append(steps, demoStep{1, nil})
	}
	return steps
}

func TestDemoC06SourceEndsEarly(t *testing.T) {
	saved := cryptoRander
	defer func() { cryptoRander = saved }()

	failures := 0
	for _, words := range []int{12, 15, 18, 21, 24} {
		size := words / 3 * 4
		for _, single := range []bool{true, false} {
			for k := 0; k < size; k++ {
				type ending struct {
					name  string
					steps []demoStep
					want  error
				}
				eofWant := io.ErrUnexpectedEOF
				if k == 0 {
					eofWant = io.EOF
				}
				var endings []ending
				// k bytes, then (0, EOF)
				endings = append(endings, ending{"bytes-then-EOF", append(demoDeliver(k, single), demoStep{0, io.EOF}), eofWant})
				// the last j of the k bytes arrive together with EOF
				for j := 1; j <= k; j++ {
					endings = append(endings, ending{fmt.Sprintf("last-%d-with-EOF", j),
						append(demoDeliver(k-j, single), demoStep{j, io.EOF}), eofWant})
				}
				// other failure kinds, with and without a byte alongside
				endings = append(endings, ending{"bytes-then-device-error", append(demoDeliver(k, single), demoStep{0, errDemoDevice}), errDemoDevice})
				endings = append(endings, ending{"bytes-then-UnexpectedEOF", append(demoDeliver(k, single), demoStep{0, io.ErrUnexpectedEOF}), io.ErrUnexpectedEOF})
				if k > 0 {
					endings = append(endings, ending{"last-1-with-device-error", append(demoDeliver(k-1, single), demoStep{1, errDemoDevice}), errDemoDevice})
				}

				for _, e := range endings {
					if failures > 20 {
						t.Fatalf("too many failures, stopping")
					}
					src := &demoSource{data: demoStream(), steps: e.steps}
					cryptoRander = src
					got, err := NewMnemonic(words, English)
					id := fmt.Sprintf("words=%d k=%d single=%v %s", words, k, single, e.name)
					if err == nil || got != "" {
						failures++
						t.Errorf("%s: source ended after %d of %d bytes but NewMnemonic returned (%q, %v) - a mnemonic from a partially filled buffer",
							id, k, size, got, err)
						continue
					}
					if err != e.want {
						failures++
						t.Errorf("%s: error = %v, want %v", id, err, e.want)
					}
				}
			}
		}
	}
}

// Complete deliveries, in pieces, the last piece with or without an error
// alongside: the result encodes exactly the first 4n/3 bytes of the stream,
// every request asks for exactly what is outstanding, nothing more is consumed.
func TestDemoC06CompleteDeliveries(t *testing.T) {
	saved := cryptoRander
	defer func() { cryptoRander = saved }()

	for _, words := range []int{12, 15, 18, 21, 24} {
		size := words / 3 * 4
		want, _ := NewMnemonicByEntropy(demoStream()[:size], English)
		var scripts [][]demoStep
		for _, last := range []error{nil, io.EOF, errDemoDevice} {
			scripts = append(scripts, []demoStep{{size, last}})
			for a := 1; a < size; a++ {
				scripts = append(scripts, []demoStep{{a, nil}, {size - a, last}})
				scripts = append(scripts, []demoStep{{a, nil}, {0, nil}, {size - a, last}})
			}
			var ones []demoStep
			for x := 0; x < size-1; x++ {
				ones = append(ones, demoStep{1, nil}, demoStep{0, nil})
			}
			ones = append(ones, demoStep{1, last})
			scripts = append(scripts, ones)
		}
		for _, sc := range scripts {
			src := &demoSource{data: demoStream(), steps: sc}
			cryptoRander = src
			got, err := NewMnemonic(words, English)
			if err != nil || got != want {
				t.Errorf("words=%d script=%v: got (%q, %v), want (%q, nil)", words, sc, got, err, want)
				continue
			}
			if len(strings.Fields(got)) != words {
				t.Errorf("words=%d: %d words", words, len(strings.Fields(got)))
			}
			if src.pos != size {
				t.Errorf("words=%d script=%v: consumed %d bytes, want %d", words, sc, src.pos, size)
			}
			if len(src.asked) != len(sc) {
				t.Errorf("words=%d script=%v: %d reads, want %d", words, sc, len(src.asked), len(sc))
			}
			left := size
			for i, a := range src.asked {
				if a != left {
					t.Errorf("words=%d script=%v: read %d asked for %d bytes, %d outstanding", words, sc, i, a, left)
					break
				}
				if i < len(sc) {
					left -= sc[i].n
				}
			}
		}
	}
}
