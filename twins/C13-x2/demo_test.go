package bip39_test

import (
	"errors"
	"strings"
	"testing"

	"github.com/islishude/bip39"
)

// The verdict on a sentence must not depend on what was checked before it. In
// particular a sentence with a typo somewhere in the middle (a word that is
// not on the list; the common user error) must not influence the next check.
//
// The rounds are repeated because an implementation may keep per-call scratch
// space in a sync.Pool: whether a call sees the scratch space of the previous
// one depends on the scheduler (which P the goroutine runs on) and on the
// garbage collector (a cycle empties the pool), so a single round could be
// lucky. No -race needed (with -race the pool drops items at random, the
// repetition covers that too).
func TestDemoTypoDoesNotPoisonNextCheck(t *testing.T) {
	type sentence struct {
		lang  bip39.Language
		words string
	}
	valid := []sentence{
		{bip39.English, "check fiscal fit sword unlock rough lottery tool sting pluck bulb random"},
		{bip39.English, "jungle devote wisdom slim census orbit merge order flip sketch add mass"},
		{bip39.Spanish, "posible ruptura ozono ligero bobina acto chuleta tetera gol realidad pez alerta"},
		{bip39.Japanese, "ねほりはほり　ひらがな　とさか　そつう　おうじ　あてな　きくらげ　みもと　してつ　ぱそこん　にってい　いこつ"},
		{bip39.English, "model garden swallow gravity spell custom upgrade atom practice knee cloth damp hour follow category"},
	}
	const bad = "ivory disorder hawk slot oil promote north fat zebra useless device cargo" // wrong checksum

	for round := 0; round < 200; round++ {
		for _, v := range valid {
			if err := bip39.CheckMnemonic(v.words, v.lang); err != nil {
				t.Fatalf("round %d: valid sentence rejected before any typo: %v", round, err)
			}

			// the same sentence with a typo in word 7 (of the English list: in any language)
			w := strings.Split(v.words, " ")
			if v.lang == bip39.Japanese {
				w = strings.Split(v.words, "　")
			}
			w[6] = "zzyzx"
			typo := strings.Join(w, " ")
			err := bip39.CheckMnemonic(typo, v.lang)
			const want = "word `zzyzx` at `6` not found in mnemonic mapping"
			if err == nil || err.Error() != want {
				t.Fatalf("round %d: typo sentence: got %v, want %s", round, err, want)
			}

			// afterwards every verdict must be what it was
			for _, u := range valid {
				if err := bip39.CheckMnemonic(u.words, u.lang); err != nil {
					t.Fatalf("round %d: history dependence: valid %v sentence %q rejected (%v) after a sentence with a typo was checked",
						round, u.lang, u.words, err)
				}
			}
			if err := bip39.CheckMnemonic(bad, bip39.English); !errors.Is(err, bip39.ErrChecksumIncorrect) {
				t.Fatalf("round %d: wrong-checksum sentence: got %v", round, err)
			}
		}
	}
}
