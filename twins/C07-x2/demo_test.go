package bip39

// Demonstration for property C07 (default source is the OS CSPRNG and the
// output depends on nothing else).
//
// The parent test re-executes the test binary (same build variant: race or
// not, same tags) so that NewMnemonic is exercised in a fresh process whose
// source has never been swapped, once with the inherited scheduler settings
// and once with GOMAXPROCS=1, both with GODEBUG=randautoseed=0 (the state of
// math/rand must be irrelevant). Each child draws mnemonics of every size
// with the default source and prints them; nothing may repeat inside a
// child or between two identical children, nothing may equal the mnemonic
// of fixed entropy, and reseeding math/rand must not make draws repeat.

import (
	"bytes"
	crand "crypto/rand"
	"fmt"
	"io"
	mrand "math/rand"
	"os"
	"os/exec"
	"strings"
	"testing"
)

// captured during package initialisation, before any test can swap it
var demoInitialSource io.Reader = cryptoRander

const demoChildEnv = "BIP39_C07_DEMO_CHILD"

var demoSizes = []int{12, 15, 18, 21, 24}
var demoLangs = []Language{English, Japanese, Spanish}

func TestDemoC07Child(t *testing.T) {
	if os.Getenv(demoChildEnv) == "" {
		t.Skip("helper for TestDemoC07")
	}
	if cryptoRander != crand.Reader {
		fmt.Printf("IDENTITY source is %T, not crypto/rand.Reader\n", cryptoRander)
	}
	for round := 0; round < 2; round++ {
		// the state of math/rand must not matter
		mrand.Seed(20240607)
		for _, lang := range demoLangs {
			for _, n := range demoSizes {
				m, err := NewMnemonic(n, lang)
				if err != nil {
					fmt.Printf("ERROR %d %v: %v\n", n, lang, err)
					continue
				}
				fmt.Printf("M %d|%d|%s\n", n, int(lang), m)
			}
		}
	}
}

func demoRunChild(t *testing.T, extraEnv ...string) []string {
	t.Helper()
	cmd := exec.Command(os.Args[0], "-test.run=^TestDemoC07Child$", "-test.count=1")
	env := []string{}
	for _, kv := range os.Environ() {
		if strings.HasPrefix(kv, "GOMAXPROCS=") || strings.HasPrefix(kv, "GODEBUG=") {
			continue
		}
		env = append(env, kv)
	}
	env = append(env, demoChildEnv+"=1", "GODEBUG=randautoseed=0")
	env = append(env, extraEnv...)
	cmd.Env = env
	var out bytes.Buffer
	cmd.Stdout = &out
	cmd.Stderr = &out
	if err := cmd.Run(); err != nil {
		t.Fatalf("child failed: %v\n%s", err, out.String())
	}
	var lines []string
	for _, l := range strings.Split(out.String(), "\n") {
		switch {
		case strings.HasPrefix(l, "IDENTITY"), strings.HasPrefix(l, "ERROR"):
			t.Errorf("child (%v): %s", extraEnv, l)
		case strings.HasPrefix(l, "M "):
			lines = append(lines, l[2:])
		}
	}
	if want := 2 * len(demoLangs) * len(demoSizes); len(lines) != want {
		t.Fatalf("child (%v) printed %d mnemonics, want %d\n%s", extraEnv, len(lines), want, out.String())
	}
	return lines
}

func TestDemoC07(t *testing.T) {
	if demoInitialSource != crand.Reader {
		t.Errorf("initial source is %T, not crypto/rand.Reader itself", demoInitialSource)
	}

	// mnemonics of fixed entropy that a broken generator is likely to emit
	fixed := map[string]string{}
	for _, lang := range demoLangs {
		for _, n := range demoSizes {
			for _, b := range []byte{0x00, 0xff} {
				m, err := NewMnemonicByEntropy(bytes.Repeat([]byte{b}, n+n/3), lang)
				if err != nil {
					t.Fatal(err)
				}
				fixed[fmt.Sprintf("%d|%d|%s", n, int(lang), m)] = fmt.Sprintf("entropy of all 0x%02x", b)
			}
		}
	}

	for _, variant := range [][]string{nil, {"GOMAXPROCS=1"}, {"GOMAXPROCS=2"}} {
		seen := map[string]string{}
		for run := 0; run < 2; run++ {
			for i, l := range demoRunChild(t, variant...) {
				where := fmt.Sprintf("process %d draw %d", run, i)
				if what, ok := fixed[l]; ok {
					t.Errorf("env %v: %s gave the mnemonic of %s: %s", variant, where, what, l)
				}
				if prev, ok := seen[l]; ok {
					t.Errorf("env %v: %s repeats %s: %s", variant, where, prev, l)
				}
				seen[l] = where
			}
		}
	}
}
