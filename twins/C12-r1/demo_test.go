package bip39

// Demonstration for twin pair 1 (property C12).
//
// Run WITH the race detector:
//
//	go test -race -count=1 -run TestDemoIdleTablesStayRaceFree -v .
//
// The test uses only the exported API. It uses every language from a cold
// start from two goroutines each, in bursts separated by quiet periods of
// 3.5 s (longer than any idle period the library might apply to its lookup
// tables), while two more goroutines keep English busy throughout. Every
// result is compared with the sequential one. The race detector must stay
// silent.

import (
	"errors"
	"strings"
	"sync"
	"testing"
	"time"
)

func TestDemoIdleTablesStayRaceFree(t *testing.T) {
	langs := []Language{
		ChineseSimplified, ChineseTraditional, English, French, Italian,
		Japanese, Korean, Spanish, Czech, Portuguese,
	}
	entropy := []byte{
		0x9e, 0x01, 0x02, 0x03, 0x04, 0x05, 0x06, 0x07,
		0x08, 0x09, 0x0a, 0x0b, 0x0c, 0x0d, 0x0e, 0x0f,
	}

	valid := make(map[Language]string)
	broken := make(map[Language]string)
	for _, lg := range langs {
		m, err := NewMnemonicByEntropy(entropy, lg)
		if err != nil {
			t.Fatal(err)
		}
		valid[lg] = m
		// swap the first two words: still in the list, checksum wrong
		sep := " "
		if lg == Japanese {
			sep = "　"
		}
		w := strings.Split(m, sep)
		w[0], w[1] = w[1], w[0]
		broken[lg] = strings.Join(w, sep)
	}

	check := func(lg Language) {
		if err := CheckMnemonic(valid[lg], lg); err != nil {
			t.Errorf("%v: valid mnemonic rejected: %v", lg, err)
		}
		if err := CheckMnemonic(broken[lg], lg); !errors.Is(err, ErrChecksumIncorrect) {
			t.Errorf("%v: broken mnemonic: got %v, want ErrChecksumIncorrect", lg, err)
		}
		if !IsMnemonicValid(valid[lg], lg) {
			t.Errorf("%v: IsMnemonicValid(valid) = false", lg)
		}
		if err := CheckMnemonic("zzzz "+valid[lg], lg); err == nil || errors.Is(err, ErrChecksumIncorrect) {
			t.Errorf("%v: 13 words: got %v", lg, err)
		}
	}

	// A few goroutines keep English busy the whole time (its table must
	// survive), everything else is used in bursts separated by quiet periods
	// of 3.5 s, longer than any idle period the library applies to a table.
	const (
		cycles = 3
		quiet  = 3500 * time.Millisecond
	)
	stop := make(chan struct{})
	var busy sync.WaitGroup
	for w := 0; w < 2; w++ {
		busy.Add(1)
		go func() {
			defer busy.Done()
			for {
				select {
				case <-stop:
					return
				default:
				}
				check(English)
				time.Sleep(5 * time.Millisecond)
			}
		}()
	}

	// Two long-lived users per language, all starting cold at the same time.
	// They stay alive (asleep) through the quiet periods, so whatever the
	// library does to "their" table meanwhile happens concurrently with them.
	var users sync.WaitGroup
	for _, lg := range langs {
		for w := 0; w < 2; w++ {
			users.Add(1)
			go func(lg Language) {
				defer users.Done()
				for c := 0; c < cycles; c++ {
					check(lg)
					time.Sleep(quiet)
				}
				check(lg)
			}(lg)
		}
	}
	users.Wait()
	close(stop)
	busy.Wait()

	// finally a mixed burst over all languages
	var wg sync.WaitGroup
	for w := 0; w < 4; w++ {
		wg.Add(1)
		go func(w int) {
			defer wg.Done()
			for i := range langs {
				check(langs[(i+w)%len(langs)])
			}
		}(w)
	}
	wg.Wait()
}
