package bip39_test

// Demonstration for twin pair 1 (property C13: no mutation of the caller's
// entropy, results depend on the arguments only).
//
// The entropy handed to NewMnemonicByEntropy is a window into a larger
// buffer, i.e. a slice with spare capacity (key material cut out of a bigger
// block, a pooled or append-grown buffer, with some Go releases the result
// of hex.DecodeString, ...).  Neither the
// window nor the bytes behind it may change, and the same entropy must give
// the same mnemonic when it is used again.

import (
	"bytes"
	"encoding/hex"
	"testing"

	"github.com/islishude/bip39"
)

func TestDemoEntropyWithSpareCapacityIsNotModified(t *testing.T) {
	langs := []bip39.Language{
		bip39.ChineseSimplified, bip39.ChineseTraditional, bip39.English,
		bip39.French, bip39.Italian, bip39.Japanese, bip39.Korean,
		bip39.Spanish, bip39.Czech, bip39.Portuguese,
	}
	for _, n := range []int{16, 20, 24, 28, 32} {
		for _, spare := range []int{0, 1, 8, 32} {
			block := make([]byte, n+spare)
			for i := range block {
				block[i] = byte(0xA5 ^ i*37)
			}
			before := append([]byte(nil), block...)
			entropy := block[:n] // len n, cap n+spare

			// reference result from a tight private copy of the same bytes
			tight := make([]byte, n)
			copy(tight, before)
			want, err := bip39.NewMnemonicByEntropy(tight, langs[n%len(langs)])
			if err != nil {
				t.Fatal(err)
			}

			got, err := bip39.NewMnemonicByEntropy(entropy, langs[n%len(langs)])
			if err != nil {
				t.Fatal(err)
			}
			if got != want {
				t.Errorf("n=%d spare=%d: mnemonic differs from that of an equal slice without spare capacity", n, spare)
			}
			if !bytes.Equal(entropy, before[:n]) {
				t.Errorf("n=%d spare=%d: caller's entropy was modified:\n before %x\n after  %x", n, spare, before[:n], entropy)
			}
			if !bytes.Equal(block, before) {
				t.Errorf("n=%d spare=%d: caller's buffer behind the entropy was modified:\n before %x\n after  %x", n, spare, before, block)
			}
			again, _ := bip39.NewMnemonicByEntropy(entropy, langs[n%len(langs)])
			if again != want {
				t.Errorf("n=%d spare=%d: second call with the same slice gives a different mnemonic:\n first  %q\n second %q", n, spare, want, again)
			}
		}
	}
}

func TestDemoHexDecodedEntropyIsNotModified(t *testing.T) {
	const h = "79079bf165e25537e2dce15919440cc4"
	entropy, _ := hex.DecodeString(h) // cap(entropy) > len(entropy) with some Go releases
	m1, _ := bip39.NewMnemonicByEntropy(entropy, bip39.English)
	if hex.EncodeToString(entropy) != h {
		t.Errorf("entropy changed from %s to %x", h, entropy)
	}
	m2, _ := bip39.NewMnemonicByEntropy(entropy, bip39.English)
	const want = "jungle devote wisdom slim census orbit merge order flip sketch add mass"
	if m1 != want || m2 != want {
		t.Errorf("same slice, two calls:\n first  %q\n second %q\n want   %q", m1, m2, want)
	}
}
