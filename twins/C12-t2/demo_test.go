package bip39

// Demonstration for twin pair 2 of property C12 (run with -race, see RUN.txt).
//
// First every call of a small workload (valid mnemonics, mnemonics with a
// wrong checksum, mnemonics with an unknown word, encodings of fixed entropy,
// in all ten languages and all five sizes) is made once by one goroutine and
// its outcome recorded. Then a number of goroutines go through the same
// workload at the same time, each from a different starting point and with a
// yield after every call so that goroutines alternate on every processor,
// and every outcome is compared with the recorded one.
//
// With the race detector the "bad" twin reports a data race inside
// CheckMnemonic: the checksum comparison reads big integers of a scratch
// object that has already been handed back to the pool, while the goroutine
// that picked the object up writes them.

import (
	"fmt"
	"runtime"
	"strings"
	"sync"
	"testing"
)

type demoCall struct {
	lang     Language
	mnemonic string // CheckMnemonic / IsMnemonicValid if non-empty
	entropy  []byte // NewMnemonicByEntropy otherwise
}

func (c demoCall) do() string {
	if c.mnemonic != "" {
		err := CheckMnemonic(c.mnemonic, c.lang)
		return fmt.Sprintf("check=%v valid=%v", err, IsMnemonicValid(c.mnemonic, c.lang))
	}
	m, err := NewMnemonicByEntropy(c.entropy, c.lang)
	return fmt.Sprintf("mnemonic=%q err=%v", m, err)
}

func demoWorkload(t *testing.T) []demoCall {
	var calls []demoCall
	for l := 0; l < 10; l++ {
		lang := Language(l)
		for size := 16; size <= 32; size += 4 {
			entropy := make([]byte, size)
			for i := range entropy {
				entropy[i] = byte(0x9e + 37*i + 11*l + size)
			}
			good, err := NewMnemonicByEntropy(entropy, lang)
			if err != nil {
				t.Fatal(err)
			}
			sep := " "
			if lang == Japanese {
				sep = "\u3000"
			}
			words := strings.Split(good, sep)
			// swapping two different words keeps the words known but
			// (almost always) spoils the checksum
			swapped := append([]string(nil), words...)
			swapped[0], swapped[len(swapped)-1] = swapped[len(swapped)-1], swapped[0]
			unknown := append([]string(nil), words...)
			unknown[len(unknown)/2] = "notaword"
			calls = append(calls,
				demoCall{lang: lang, entropy: entropy},
				demoCall{lang: lang, mnemonic: good},
				demoCall{lang: lang, mnemonic: strings.Join(swapped, sep)},
				demoCall{lang: lang, mnemonic: strings.Join(unknown, sep)},
			)
		}
	}
	return calls
}

func TestC12Demo(t *testing.T) {
	calls := demoWorkload(t)

	// every call alone
	want := make([]string, len(calls))
	for i, c := range calls {
		want[i] = c.do()
	}

	const workers = 16
	const laps = 3
	var wg sync.WaitGroup
	start := make(chan struct{})
	errs := make(chan string, workers*laps*len(calls))
	for w := 0; w < workers; w++ {
		wg.Add(1)
		go func(w int) {
			defer wg.Done()
			<-start
			for n := 0; n < laps*len(calls); n++ {
				i := (n + w*13) % len(calls)
				if got := calls[i].do(); got != want[i] {
					errs <- fmt.Sprintf("worker %d, call %d (%v): got %s, alone it gives %s", w, i, calls[i].lang, got, want[i])
				}
				runtime.Gosched()
			}
		}(w)
	}
	close(start)
	wg.Wait()
	close(errs)
	n := 0
	for e := range errs {
		if n++; n <= 10 {
			t.Error(e)
		}
	}
	if n > 10 {
		t.Errorf("... and %d more differences", n-10)
	}
}
