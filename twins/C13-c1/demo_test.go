package bip39_test

import (
	"fmt"
	"testing"

	"github.com/islishude/bip39"
)

// C13: the outcome of a call depends on its arguments alone. A mnemonic
// checked against a Language value that names no word list has no known
// words, whatever languages were used before in the process.
func TestDemoC13UnsupportedLanguageAfterSupportedOne(t *testing.T) {
	supported := []bip39.Language{
		bip39.ChineseSimplified, bip39.ChineseTraditional, bip39.English,
		bip39.French, bip39.Italian, bip39.Japanese, bip39.Korean,
		bip39.Spanish, bip39.Czech, bip39.Portuguese,
	}
	unsupported := []bip39.Language{10, 100, -1, 1 << 20}

	entropy := make([]byte, 16)
	for i := range entropy {
		entropy[i] = byte(7*i + 3)
	}

	for _, lang := range supported {
		for _, bogus := range unsupported {
			name := fmt.Sprintf("%d_then_%d", int(lang), int(bogus))
			t.Run(name, func(t *testing.T) {
				m, err := bip39.NewMnemonicByEntropy(entropy, lang)
				if err != nil {
					t.Fatal(err)
				}
				// the previous call in this process uses a supported language
				if err := bip39.CheckMnemonic(m, lang); err != nil {
					t.Fatalf("CheckMnemonic(%q, %d) = %v, want nil", m, int(lang), err)
				}
				// the same arguments must always give the same answer
				if err := bip39.CheckMnemonic(m, bogus); err == nil {
					t.Errorf("CheckMnemonic(%q, Language(%d)) = nil right after a call for language %d; "+
						"in a fresh process it is an error (no word is known)", m, int(bogus), int(lang))
				}
				if err := bip39.CheckMnemonic(m, lang); err != nil {
					t.Fatalf("CheckMnemonic(%q, %d) = %v, want nil", m, int(lang), err)
				}
				if bip39.IsMnemonicValid(m, bogus) {
					t.Errorf("IsMnemonicValid(%q, Language(%d)) = true right after a call for language %d",
						m, int(bogus), int(lang))
				}
			})
		}
	}
}
