package bip39

// Demonstration for property C06 (NewMnemonic is fail-closed and uses exactly
// the bytes its source delivers), built around error VALUES and unusual but
// legal io.Reader behaviour.
//
//	go test -count=1 -run 'TestDemo' .
//
// No build tag and no -race needed: the file lives in package bip39 and sets
// the package-level source (cryptoRander) directly, as the existing tests do.

import (
	"bytes"
	"errors"
	"fmt"
	"io"
	"testing"
	"time"
)

// ---------------------------------------------------------------- error zoo

// tempErr is a net.Error-like value: transient by its own account, and it
// unwraps to io.EOF. NewMnemonic must neither retry it nor rewrite it.
type tempErr struct{ inner error }

func (e *tempErr) Error() string   { return "temporary: " + e.inner.Error() }
func (e *tempErr) Temporary() bool { return true }
func (e *tempErr) Timeout() bool   { return true }
func (e *tempErr) Unwrap() error   { return e.inner }

// classErr matches by error class rather than identity: its Is method
// answers true for every target (a catch-all "any failure of this device").
type classErr struct{ op string }

func (e *classErr) Error() string              { return "device failure during " + e.op }
func (e *classErr) Is(target error) bool       { return true }
func (e *classErr) Temporary() bool            { return false }
func (e *classErr) Timeout() bool              { return false }
func (e *classErr) Unwrap() error              { return nil }
func (e *classErr) As(target interface{}) bool { return false }

type errCase struct {
	name string
	mk   func() error
}

func errZoo() []errCase {
	return []errCase{
		{"EOF", func() error { return io.EOF }},
		{"UnexpectedEOF", func() error { return io.ErrUnexpectedEOF }},
		{"plain", func() error { return errors.New("entropy device unplugged") }},
		{"wrapped3xEOF", func() error {
			return fmt.Errorf("a: %w", fmt.Errorf("b: %w", fmt.Errorf("c: %w", io.EOF)))
		}},
		{"joinEOF", func() error { return errors.Join(io.EOF, errors.New("also this")) }},
		{"temporaryTimeout", func() error { return &tempErr{inner: io.EOF} }},
		{"classIs", func() error { return &classErr{op: "read"} }},
		{"wrappedClassIs", func() error { return fmt.Errorf("rng: %w", &classErr{op: "read"}) }},
	}
}

// ------------------------------------------------------------ scripted source

type step struct {
	data   []byte
	err    error
	boom   interface{} // if non-nil, Read panics with this value
	repeat int         // extra repetitions (for idle reads)
}

type script struct {
	t         *testing.T
	steps     []step
	calls     int
	delivered int
	want      int // bytes the caller is entitled to ask for in total
	afterErr  int // Read calls made after an error was returned
	errSeen   bool
}

func (s *script) Read(p []byte) (int, error) {
	s.calls++
	if s.errSeen {
		s.afterErr++
	}
	if rest := s.want - s.delivered; len(p) != rest {
		s.t.Errorf("read #%d asked for %d bytes, exactly %d are still owed", s.calls, len(p), rest)
	}
	if len(s.steps) == 0 {
		s.errSeen = true
		return 0, io.EOF
	}
	st := &s.steps[0]
	if st.boom != nil {
		s.steps = s.steps[1:]
		panic(st.boom)
	}
	n := copy(p, st.data)
	st.data = st.data[n:]
	s.delivered += n
	if len(st.data) > 0 {
		return n, nil
	}
	err := st.err
	if st.repeat > 0 {
		st.repeat--
	} else {
		s.steps = s.steps[1:]
	}
	if err != nil {
		s.errSeen = true
	}
	return n, err
}

func setSource(r io.Reader) (restore func()) {
	prev := cryptoRander
	cryptoRander = r
	return func() { cryptoRander = prev }
}

func pattern(n int, salt byte) []byte {
	b := make([]byte, n)
	for i := range b {
		b[i] = byte(i*37+11) ^ salt
	}
	return b
}

func mustEncode(t *testing.T, ent []byte, lang Language) string {
	t.Helper()
	m, err := NewMnemonicByEntropy(append([]byte(nil), ent...), lang)
	if err != nil {
		t.Fatalf("NewMnemonicByEntropy(%d bytes): %v", len(ent), err)
	}
	return m
}

var wordCounts = []int{12, 15, 18, 21, 24}

// ------------------------------------------------------------------- tests

// Any error before 4n/3 bytes have been delivered means failure: empty
// string, and the error handed back is the source's own value (io.EOF after
// some bytes becomes io.ErrUnexpectedEOF, as io.ReadFull reports it). The
// source keeps delivering after the error; none of that may be consumed.
func TestDemoErrorValuesFailClosed(t *testing.T) {
	for _, wc := range wordCounts {
		size := wc + wc/3
		for _, k := range []int{0, 1, size / 2, size - 1} {
			for _, ec := range errZoo() {
				for _, alongside := range []bool{false, true} {
					if alongside && k == 0 {
						continue
					}
					name := fmt.Sprintf("words=%d/k=%d/%s/alongside=%v", wc, k, ec.name, alongside)
					t.Run(name, func(t *testing.T) {
						ent := pattern(size, byte(k))
						e := ec.mk()
						var steps []step
						switch {
						case k == 0:
							steps = []step{{err: e}}
						case alongside: // (n>0, err) on the FIRST read
							steps = []step{{data: ent[:k], err: e}}
						default:
							steps = []step{{data: ent[:k]}, {err: e}}
						}
						// the source "recovers" and would deliver the rest
						steps = append(steps, step{data: ent[k:]}, step{data: pattern(64, 0xee)})
						src := &script{t: t, steps: steps, want: size}
						defer setSource(src)()

						got, err := NewMnemonic(wc, English)
						if got != "" {
							t.Errorf("fail-open: NewMnemonic returned %q after the source failed at byte %d of %d", got, k, size)
						}
						if err == nil {
							t.Fatalf("NewMnemonic returned a nil error although the source failed at byte %d of %d", k, size)
						}
						wantErr := e
						if e == io.EOF && k > 0 {
							wantErr = io.ErrUnexpectedEOF
						}
						if err != wantErr {
							t.Errorf("error value changed: got %#v (%v), want %#v (%v)", err, err, wantErr, wantErr)
						}
						if src.afterErr != 0 {
							t.Errorf("source was read %d more time(s) after it reported an error", src.afterErr)
						}
						if src.delivered != k {
							t.Errorf("consumed %d bytes, want %d", src.delivered, k)
						}
					})
				}
			}
		}
	}
}

// An error that arrives together with the last owed byte is moot: all 4n/3
// bytes were delivered, so the mnemonic encodes exactly those bytes.
func TestDemoErrorWithLastBytes(t *testing.T) {
	for _, wc := range wordCounts {
		size := wc + wc/3
		for _, ec := range errZoo() {
			for _, firstRead := range []bool{true, false} {
				ent := pattern(size, 0x5a)
				var steps []step
				if firstRead {
					steps = []step{{data: ent, err: ec.mk()}}
				} else {
					steps = []step{{data: ent[:3]}, {data: ent[3:], err: ec.mk()}}
				}
				src := &script{t: t, steps: steps, want: size}
				restore := setSource(src)
				got, err := NewMnemonic(wc, Spanish)
				restore()
				if err != nil || got != mustEncode(t, ent, Spanish) {
					t.Errorf("words=%d %s firstRead=%v: got (%q, %v), want the encoding of the %d delivered bytes and nil",
						wc, ec.name, firstRead, got, err, size)
				}
				if src.delivered != size {
					t.Errorf("words=%d %s: consumed %d bytes, want %d", wc, ec.name, src.delivered, size)
				}
			}
		}
	}
}

// Many more (0, nil) reads than data reads: legal, merely slow.
func TestDemoIdleReads(t *testing.T) {
	for _, wc := range wordCounts {
		size := wc + wc/3
		ent := pattern(size, 0x33)
		var steps []step
		for i := 0; i < size; i++ {
			steps = append(steps, step{repeat: 150 + i}, step{data: ent[i : i+1]})
		}
		steps = append(steps, step{data: pattern(64, 0xee)})
		src := &script{t: t, steps: steps, want: size}
		restore := setSource(src)
		got, err := NewMnemonic(wc, Japanese)
		restore()
		if err != nil || got != mustEncode(t, ent, Japanese) {
			t.Errorf("words=%d: got (%q, %v), want encoding of delivered bytes", wc, got, err)
		}
		if src.delivered != size {
			t.Errorf("words=%d: consumed %d bytes, want %d", wc, src.delivered, size)
		}
	}
}

type boomValue struct{ msg string }

func callRecovering(wc int, lang Language) (m string, err error, recovered interface{}) {
	defer func() { recovered = recover() }()
	m, err = NewMnemonic(wc, lang)
	return
}

// A source whose Read panics after delivering some bytes: the panic value
// reaches the caller unchanged, nothing stays locked, and the aborted call
// leaves no trace - the following calls (same and other sizes, healthy,
// fragmenting and failing sources) behave exactly as in a fresh process.
func TestDemoPanicLeavesNoTrace(t *testing.T) {
	for _, wc := range wordCounts {
		size := wc + wc/3
		for _, k := range []int{1, 5, size - 1} {
			for _, nextWc := range wordCounts {
				nextSize := nextWc + nextWc/3
				name := fmt.Sprintf("words=%d/panicAfter=%d/next=%d", wc, k, nextWc)
				t.Run(name, func(t *testing.T) {
					boom := &boomValue{msg: "hardware RNG fault"}
					junk := pattern(size, 0x77)
					src := &script{t: t, want: size, steps: []step{{data: junk[:k]}, {boom: boom}}}
					restore := setSource(src)
					m, err, rec := callRecovering(wc, English)
					restore()
					if rec != interface{}(boom) {
						t.Fatalf("panic value did not propagate unchanged: recovered %#v (call returned %q, %v)", rec, m, err)
					}

					// 1. healthy, fragmenting source, from another goroutine
					//    (would hang if a lock were still held)
					ent := pattern(nextSize, 0xa1)
					ok := &script{t: t, want: nextSize, steps: []step{
						{data: ent[:2]}, {repeat: 3}, {data: ent[2:9]}, {data: ent[9:]}, {data: pattern(64, 0xee)},
					}}
					restore = setSource(ok)
					type res struct {
						m   string
						err error
					}
					ch := make(chan res, 1)
					go func() {
						m, err := NewMnemonic(nextWc, English)
						ch <- res{m, err}
					}()
					var r res
					select {
					case r = <-ch:
					case <-time.After(20 * time.Second):
						t.Fatal("NewMnemonic hangs after an earlier call panicked inside the source")
					}
					restore()
					if want := mustEncode(t, ent, English); r.err != nil || r.m != want {
						t.Errorf("call after the aborted one: got (%q, %v)\nwant the encoding of the %d bytes delivered: %q", r.m, r.err, nextSize, want)
					}
					if ok.delivered != nextSize {
						t.Errorf("call after the aborted one consumed %d bytes from its source, want %d", ok.delivered, nextSize)
					}
				})
			}

			// 2. after another aborted call, a source that ends one byte early
			t.Run(fmt.Sprintf("words=%d/panicAfter=%d/thenShort", wc, k), func(t *testing.T) {
				boom := &boomValue{msg: "again"}
				src := &script{t: t, want: size, steps: []step{{data: pattern(k, 1)}, {boom: boom}}}
				restore := setSource(src)
				_, _, rec := callRecovering(wc, English)
				restore()
				if rec != interface{}(boom) {
					t.Fatalf("panic value did not propagate unchanged: %#v", rec)
				}
				short := &script{t: t, want: size, steps: []step{{data: pattern(size-k, 2)}}}
				restore = setSource(short)
				got, err := NewMnemonic(wc, English)
				restore()
				if got != "" || err != io.ErrUnexpectedEOF {
					t.Errorf("source ended after %d of %d bytes: got (%q, %v), want (\"\", unexpected EOF)", size-k, size, got, err)
				}
			})
		}
	}
}

// Sanity: plain single-read delivery and bytes.Reader fragments still work.
func TestDemoPlainDelivery(t *testing.T) {
	for _, wc := range wordCounts {
		size := wc + wc/3
		ent := pattern(size, 0x10)
		r := bytes.NewReader(append(append([]byte(nil), ent...), 1, 2, 3))
		restore := setSource(r)
		got, err := NewMnemonic(wc, Korean)
		restore()
		if err != nil || got != mustEncode(t, ent, Korean) {
			t.Errorf("words=%d: got (%q, %v)", wc, got, err)
		}
		if r.Len() != 3 {
			t.Errorf("words=%d: %d bytes left in the source, want 3", wc, r.Len())
		}
	}
}
