package bip39_test

import (
	"bytes"
	"encoding/hex"
	"fmt"
	"testing"

	"github.com/islishude/bip39"
)

// C13: the entropy slice passed to NewMnemonicByEntropy is never modified
// (nor is the memory behind it), whatever the shape of the slice, and the
// same arguments give the same mnemonic every time.
func TestDemoC13EntropyIsNotModified(t *testing.T) {
	langs := []bip39.Language{
		bip39.ChineseSimplified, bip39.ChineseTraditional, bip39.English,
		bip39.French, bip39.Italian, bip39.Japanese, bip39.Korean,
		bip39.Spanish, bip39.Czech, bip39.Portuguese, bip39.Language(100),
	}

	pattern := func(n int) []byte {
		b := make([]byte, n)
		for i := range b {
			b[i] = byte(151*i + 43)
		}
		return b
	}

	// each shape returns a slice of length n together with the whole
	// array it lives in
	shapes := []struct {
		name string
		make func(n int) (entropy, backing []byte)
	}{
		{"exact", func(n int) ([]byte, []byte) {
			b := pattern(n)
			return b, b
		}},
		{"one_spare_byte", func(n int) ([]byte, []byte) {
			b := pattern(n + 1)
			return b[:n], b
		}},
		{"prefix_of_64_byte_buffer", func(n int) ([]byte, []byte) {
			b := pattern(64)
			return b[:n], b
		}},
		{"middle_of_64_byte_buffer", func(n int) ([]byte, []byte) {
			b := pattern(64)
			return b[8 : 8+n], b
		}},
		{"hex_DecodeString", func(n int) ([]byte, []byte) {
			b, err := hex.DecodeString(hex.EncodeToString(pattern(n)))
			if err != nil {
				panic(err)
			}
			return b, b[:cap(b)]
		}},
	}

	for _, n := range []int{16, 20, 24, 28, 32} {
		for _, shape := range shapes {
			t.Run(fmt.Sprintf("%d_bytes_%s", n, shape.name), func(t *testing.T) {
				for _, lang := range langs {
					entropy, backing := shape.make(n)
					before := append([]byte(nil), backing...)
					// an exact-size private copy of the same bytes
					original := make([]byte, n)
					copy(original, entropy)

					want, err := bip39.NewMnemonicByEntropy(original, lang)
					if err != nil {
						t.Fatal(err)
					}

					got, err := bip39.NewMnemonicByEntropy(entropy, lang)
					if err != nil {
						t.Fatal(err)
					}
					if got != want {
						t.Errorf("language %d: first call = %q, want %q", int(lang), got, want)
					}
					if !bytes.Equal(entropy, before[len(before)-cap(entropy):][:n]) {
						t.Errorf("language %d: entropy (len %d, cap %d) modified by NewMnemonicByEntropy:\n now %x\n was %x",
							int(lang), len(entropy), cap(entropy), entropy, before[len(before)-cap(entropy):][:n])
					}
					if !bytes.Equal(backing, before) {
						t.Errorf("language %d: memory behind the entropy slice modified by NewMnemonicByEntropy:\n now %x\n was %x",
							int(lang), backing, before)
					}

					again, err := bip39.NewMnemonicByEntropy(entropy, lang)
					if err != nil {
						t.Fatal(err)
					}
					if again != want {
						t.Errorf("language %d: second call with the same slice = %q, want %q", int(lang), again, want)
					}
				}
			})
		}
	}
}
