package bip39

// Demonstration for twin pair 2 (property C12).
//
// Run with the race detector:
//
//	go test -race -count=1 -run '^TestDemoConcurrentSeeds$' .
//
// Several goroutines derive seeds at the same time, each from its own
// mnemonic and passphrase; every seed must be the one the call yields when it
// runs alone (PBKDF2-HMAC-SHA512 of the NFKD forms, computed here
// independently), and the race detector must stay silent.

import (
	"bytes"
	"crypto/sha512"
	"fmt"
	"strings"
	"sync"
	"testing"

	"golang.org/x/crypto/pbkdf2"
	"golang.org/x/text/unicode/norm"
)

func demoSeedAlone(mnemonic, passphrase string) []byte {
	return pbkdf2.Key([]byte(norm.NFKD.String(mnemonic)),
		[]byte(norm.NFKD.String("mnemonic"+passphrase)), 2048, 64, sha512.New)
}

func TestDemoConcurrentSeeds(t *testing.T) {
	const (
		goroutines = 8
		rounds     = 6
	)
	type call struct {
		mnemonic, passphrase string
		want                 []byte
	}
	calls := make([][]call, goroutines)
	for g := range calls {
		for r := 0; r < rounds; r++ {
			ent := make([]byte, 16+4*((g+r)%5))
			for i := range ent {
				ent[i] = byte(1 + g*29 + r*13 + i*3)
			}
			lang := Language((g + r) % 10)
			m, err := NewMnemonicByEntropy(ent, lang)
			if err != nil {
				t.Fatal(err)
			}
			// long passphrases with characters that NFKD has to take apart
			pass := strings.Repeat(fmt.Sprintf("pässwörd-%d-%d-ｶﾞ㍍", g, r), 1+200*(r%3))
			calls[g] = append(calls[g], call{m, pass, demoSeedAlone(m, pass)})
		}
	}

	var (
		start = make(chan struct{})
		wg    sync.WaitGroup
		mu    sync.Mutex
		wrong []string
	)
	for g := 0; g < goroutines; g++ {
		wg.Add(1)
		go func(g int) {
			defer wg.Done()
			<-start
			for r, c := range calls[g] {
				got := MnemonicToSeed(c.mnemonic, c.passphrase)
				if !bytes.Equal(got, c.want) {
					mu.Lock()
					wrong = append(wrong, fmt.Sprintf("goroutine %d call %d: seed %x..., alone it is %x...", g, r, got[:8], c.want[:8]))
					mu.Unlock()
				}
			}
		}(g)
	}
	close(start)
	wg.Wait()
	for _, w := range wrong {
		t.Error(w)
	}
}
