package bip39

import (
	"crypto/rand"
	"math/big"
	"strings"
	"testing"
)

// The default source is captured when the test binary starts, before any
// test had a chance to overwrite cryptoRander (the existing TestNewMnemonic
// does and never restores it).
var demoDefaultSource = cryptoRander

// demoEntropy decodes an English mnemonic back to its entropy bytes.
func demoEntropy(t *testing.T, m string) []byte {
	t.Helper()
	words := strings.Split(m, " ")
	idx := make(map[string]int64, 2048)
	for i, w := range English.list() {
		idx[w] = int64(i)
	}
	v := new(big.Int)
	for _, w := range words {
		i, ok := idx[w]
		if !ok {
			t.Fatalf("word %q is not in the English list", w)
		}
		v.Lsh(v, 11)
		v.Or(v, big.NewInt(i))
	}
	v.Rsh(v, uint(len(words)/3)) // drop the checksum bits
	out := make([]byte, len(words)+len(words)/3)
	b := v.Bytes()
	copy(out[len(out)-len(b):], b)
	return out
}

// TestDemoDefaultSourceBytesOnly (C07): with the untouched default source,
// every mnemonic of a long run - all five sizes mixed, as a wallet service
// would issue them - must be made of operating-system bytes only. A mnemonic
// whose entropy ends in four or more zero bytes has probability 2^-32 per
// draw; seeing even one among a few thousand means fixed data was
// substituted for randomness.
func TestDemoDefaultSourceBytesOnly(t *testing.T) {
	if demoDefaultSource != rand.Reader {
		t.Fatalf("default source is %T, want crypto/rand.Reader itself", demoDefaultSource)
	}
	saved := cryptoRander
	cryptoRander = demoDefaultSource
	defer func() { cryptoRander = saved }()

	seen := make(map[string]int)
	check := func(call, words int) {
		m, err := NewMnemonic(words, English)
		if err != nil {
			t.Fatalf("call %d: NewMnemonic(%d): %v", call, words, err)
		}
		if got := len(strings.Split(m, " ")); got != words {
			t.Fatalf("call %d: %d words, want %d", call, got, words)
		}
		if prev, dup := seen[m]; dup {
			t.Fatalf("call %d repeats the mnemonic of call %d: %q", call, prev, m)
		}
		seen[m] = call
		ent := demoEntropy(t, m)
		zeros := 0
		for i := len(ent) - 1; i >= 0 && ent[i] == 0; i-- {
			zeros++
		}
		if zeros >= 4 {
			t.Errorf("call %d (%d words): entropy %x ends in %d zero bytes - not drawn from the OS source",
				call, words, ent, zeros)
		}
	}

	call := 0
	// homogeneous runs of each size, then a mixed run
	for _, words := range []int{12, 15, 18, 21, 24} {
		for i := 0; i < 200; i++ {
			call++
			check(call, words)
		}
	}
	sizes := []int{12, 24, 15, 12, 21, 18, 24, 15}
	for i := 0; i < 1000; i++ {
		call++
		check(call, sizes[i%len(sizes)])
	}
}
