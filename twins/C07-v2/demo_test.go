package bip39

// Demonstration for twin pair 2 (property C07).
//
// Nothing in this test replaces the randomness source. It checks that the
// reader NewMnemonic is going to consult is crypto/rand.Reader itself, at
// process start and again after every call of a sequence that covers all
// languages, all accepted word counts and some rejected ones: the identity of
// the default source must not depend on what was called before.
//
// Run it alone (-run TestDemoC07): the other tests of the package replace the
// source and do not put it back.

import (
	crand "crypto/rand"
	"errors"
	"io"
	"testing"
)

func TestDemoC07(t *testing.T) {
	check := func(when string) {
		t.Helper()
		if cryptoRander != io.Reader(crand.Reader) {
			t.Fatalf("C07 violated %s: source consulted by NewMnemonic is %T, not crypto/rand.Reader itself (%T)", when, cryptoRander, crand.Reader)
		}
	}
	check("at process start")

	for _, n := range []int{0, -3, 9, 27, 13} {
		if _, err := NewMnemonic(n, English); !errors.Is(err, ErrWordLen) {
			t.Fatalf("NewMnemonic(%d) error = %v, want ErrWordLen", n, err)
		}
		check("after a rejected word count")
	}

	seen := map[string]bool{}
	for round := 0; round < 3; round++ {
		for lang := ChineseSimplified; lang <= Portuguese; lang++ {
			for _, n := range []int{12, 15, 18, 21, 24} {
				m, err := NewMnemonic(n, lang)
				if err != nil || m == "" {
					t.Fatalf("NewMnemonic(%d, %v) = %q, %v", n, lang, m, err)
				}
				if seen[m] {
					t.Fatalf("C07 violated: mnemonic repeated: %q", m)
				}
				seen[m] = true
				check("after NewMnemonic(" + lang.String() + ")")
			}
		}
	}
}
