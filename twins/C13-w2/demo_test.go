package bip39_test

import (
	"testing"

	"github.com/islishude/bip39"
)

// C13: the outcome of CheckMnemonic depends on its two arguments only, not on
// what was checked before. Language values outside the ten supported ones
// have no lookup table, so every mnemonic of an accepted length is reported
// as "word ... at `0` not found" for them - whatever has been checked before
// under a supported language, and vice versa.
func TestDemoC13UnsupportedLanguageVerdicts(t *testing.T) {
	const (
		m1 = "check fiscal fit sword unlock rough lottery tool sting pluck bulb random"
		m2 = "rich soon pool legal busy add couch tower goose security raven anger"
		m3 = "ivory disorder hawk slot oil promote north fat zebra useless device cargo" // checksum incorrect
	)
	show := func(err error) string {
		if err == nil {
			return "<nil>"
		}
		return err.Error()
	}
	notFound := func(w string) string { return "word `" + w + "` at `0` not found in mnemonic mapping" }

	// unsupported values that a narrowing conversion would fold onto English (2)
	aliases := []bip39.Language{bip39.English + 256, bip39.English - 256, bip39.English + 1<<16}
	// and plain unsupported ones
	others := []bip39.Language{10, 100, -1, 255}

	// 1. supported first, unsupported afterwards
	if err := bip39.CheckMnemonic(m1, bip39.English); err != nil {
		t.Fatalf("CheckMnemonic(m1, English) = %v, want nil", err)
	}
	if err := bip39.CheckMnemonic(m3, bip39.English); err != bip39.ErrChecksumIncorrect {
		t.Fatalf("CheckMnemonic(m3, English) = %v, want ErrChecksumIncorrect", show(err))
	}
	for _, lg := range append(append([]bip39.Language{}, aliases...), others...) {
		if err := bip39.CheckMnemonic(m1, lg); show(err) != notFound("check") {
			t.Errorf("after English: CheckMnemonic(m1, Language(%d)) = %s, want %s", int(lg), show(err), notFound("check"))
		}
		if bip39.IsMnemonicValid(m1, lg) {
			t.Errorf("after English: IsMnemonicValid(m1, Language(%d)) = true", int(lg))
		}
		if err := bip39.CheckMnemonic(m3, lg); show(err) != notFound("ivory") {
			t.Errorf("after English: CheckMnemonic(m3, Language(%d)) = %s, want %s", int(lg), show(err), notFound("ivory"))
		}
	}

	// 2. unsupported first, supported afterwards
	for _, lg := range append(append([]bip39.Language{}, others...), aliases...) {
		if err := bip39.CheckMnemonic(m2, lg); show(err) != notFound("rich") {
			t.Errorf("fresh: CheckMnemonic(m2, Language(%d)) = %s, want %s", int(lg), show(err), notFound("rich"))
		}
	}
	if err := bip39.CheckMnemonic(m2, bip39.English); err != nil {
		t.Errorf("after unsupported languages: CheckMnemonic(m2, English) = %v, want nil", err)
	}
	if !bip39.IsMnemonicValid(m2, bip39.English) {
		t.Errorf("after unsupported languages: IsMnemonicValid(m2, English) = false, want true")
	}
}
