package bip39

// Demonstration for C17, pair 1: the update-wordlist tool must reproduce its
// upstream input faithfully however the response body arrives.
//
// The test builds ./update-wordlist with the "verif" tag (in-process upstream,
// no network), runs it in a scratch directory against upstream files and checks
// that every generated file parses as Go and lists exactly the non-empty input
// lines, byte for byte, in order - once with whole-body delivery and several
// times with bodies delivered in seeded short reads (BIP39_VERIF_FRAG).
//
// Run:  go test -count=1 -run TestDemoC17Pair1 .

import (
	"context"
	"go/ast"
	"go/parser"
	"go/token"
	"os"
	"os/exec"
	"path/filepath"
	"strconv"
	"strings"
	"testing"
	"time"

	"github.com/islishude/bip39/internal/wordlist"
)

var demoC17Targets = []struct {
	file, variable string
	canonical      []string
}{
	{"chinese_simplified", "ChineseSimplified", wordlist.ChineseSimplified},
	{"chinese_traditional", "ChineseTraditional", wordlist.ChineseTraditional},
	{"czech", "Czech", wordlist.Czech},
	{"english", "English", wordlist.English},
	{"french", "French", wordlist.French},
	{"italian", "Italian", wordlist.Italian},
	{"japanese", "Japanese", wordlist.Japanese},
	{"korean", "Korean", wordlist.Korean},
	{"portuguese", "Portuguese", wordlist.Portuguese},
	{"spanish", "Spanish", wordlist.Spanish},
}

func demoC17BuildTool(t *testing.T) string {
	t.Helper()
	bin := filepath.Join(t.TempDir(), "update-wordlist")
	ctx, cancel := context.WithTimeout(context.Background(), 5*time.Minute)
	defer cancel()
	cmd := exec.CommandContext(ctx, "go", "build", "-tags", "verif", "-o", bin, "./update-wordlist")
	if out, err := cmd.CombinedOutput(); err != nil {
		t.Fatalf("building the tool: %v\n%s", err, out)
	}
	return bin
}

// demoC17Upstream lays out bodies (keyed by list file name) the way the verif
// hook of the tool expects them.
func demoC17Upstream(t *testing.T, bodies map[string]string) string {
	t.Helper()
	root := t.TempDir()
	dir := filepath.Join(root, "bitcoin", "bips", "master", "bip-0039")
	if err := os.MkdirAll(dir, 0777); err != nil {
		t.Fatal(err)
	}
	for name, body := range bodies {
		if err := os.WriteFile(filepath.Join(dir, name+".txt"), []byte(body), 0666); err != nil {
			t.Fatal(err)
		}
	}
	return root
}

// demoC17Run runs the tool in a fresh working directory and returns it.
func demoC17Run(t *testing.T, bin, upstream, frag string) string {
	t.Helper()
	work := t.TempDir()
	if err := os.MkdirAll(filepath.Join(work, "internal", "wordlist"), 0777); err != nil {
		t.Fatal(err)
	}
	ctx, cancel := context.WithTimeout(context.Background(), 2*time.Minute)
	defer cancel()
	cmd := exec.CommandContext(ctx, bin)
	cmd.Dir = work
	cmd.Env = append(os.Environ(), "BIP39_VERIF_UPSTREAM="+upstream)
	if frag != "" {
		cmd.Env = append(cmd.Env, "BIP39_VERIF_FRAG="+frag)
	}
	if out, err := cmd.CombinedOutput(); err != nil {
		t.Fatalf("tool failed: %v\n%s", err, out)
	}
	return work
}

// demoC17ReadList parses a generated file and returns the elements of
// "var <variable> = []string{...}".
func demoC17ReadList(t *testing.T, path, variable string) ([]string, bool) {
	t.Helper()
	fset := token.NewFileSet()
	f, err := parser.ParseFile(fset, path, nil, 0)
	if err != nil {
		t.Errorf("%s does not parse as Go: %v", path, err)
		return nil, false
	}
	if f.Name.Name != "wordlist" {
		t.Errorf("%s: package %s, want wordlist", path, f.Name.Name)
		return nil, false
	}
	var list []string
	found := 0
	for _, d := range f.Decls {
		gd, ok := d.(*ast.GenDecl)
		if !ok || gd.Tok != token.VAR {
			t.Errorf("%s: unexpected declaration", path)
			return nil, false
		}
		for _, s := range gd.Specs {
			vs := s.(*ast.ValueSpec)
			if len(vs.Names) != 1 || vs.Names[0].Name != variable || len(vs.Values) != 1 {
				t.Errorf("%s: unexpected var spec", path)
				return nil, false
			}
			cl, ok := vs.Values[0].(*ast.CompositeLit)
			if !ok {
				t.Errorf("%s: %s is not a composite literal", path, variable)
				return nil, false
			}
			found++
			for _, e := range cl.Elts {
				bl, ok := e.(*ast.BasicLit)
				if !ok || bl.Kind != token.STRING {
					t.Errorf("%s: non-string element", path)
					return nil, false
				}
				w, err := strconv.Unquote(bl.Value)
				if err != nil {
					t.Errorf("%s: %v", path, err)
					return nil, false
				}
				list = append(list, w)
			}
		}
	}
	if found != 1 {
		t.Errorf("%s: %d declarations of %s, want 1", path, found, variable)
		return nil, false
	}
	return list, true
}

func demoC17NonEmptyLines(body string) []string {
	var want []string
	for _, l := range strings.Split(body, "\n") {
		if l != "" {
			want = append(want, l)
		}
	}
	return want
}

func demoC17Check(t *testing.T, work string, bodies map[string]string) {
	t.Helper()
	for _, tg := range demoC17Targets {
		want := demoC17NonEmptyLines(bodies[tg.file])
		got, ok := demoC17ReadList(t, filepath.Join(work, "internal", "wordlist", tg.file+".go"), tg.variable)
		if !ok {
			continue
		}
		if len(got) != len(want) {
			t.Errorf("%s: %d words generated, %d non-empty lines upstream", tg.file, len(got), len(want))
		}
		for i := 0; i < len(got) && i < len(want); i++ {
			if got[i] != want[i] {
				t.Errorf("%s: word %d is %q, upstream line is %q", tg.file, i, got[i], want[i])
				break
			}
		}
	}
}

func TestDemoC17Pair1(t *testing.T) {
	bin := demoC17BuildTool(t)

	canonical := map[string]string{}
	shapes := map[string]string{}
	for i, tg := range demoC17Targets {
		canonical[tg.file] = strings.Join(tg.canonical, "\n") + "\n"
		// the same words in other shapes: no final newline, blank lines, short files
		switch i % 4 {
		case 0:
			shapes[tg.file] = strings.Join(tg.canonical, "\n")
		case 1:
			shapes[tg.file] = "\n" + strings.Join(tg.canonical[:300], "\n\n") + "\n\n\n"
		case 2:
			shapes[tg.file] = strings.Join(tg.canonical[1000:1003], "\n")
		case 3:
			shapes[tg.file] = strings.Join(tg.canonical, "\n") + "\n" + strings.Join(tg.canonical, "\n") + "\n"
		}
	}

	for _, set := range []struct {
		name   string
		bodies map[string]string
	}{{"canonical", canonical}, {"shapes", shapes}} {
		upstream := demoC17Upstream(t, set.bodies)
		for _, frag := range []string{"", "1", "2", "3", "20240229"} {
			name := set.name + "/whole-body"
			if frag != "" {
				name = set.name + "/short-reads-seed-" + frag
			}
			t.Run(name, func(t *testing.T) {
				work := demoC17Run(t, bin, upstream, frag)
				demoC17Check(t, work, set.bodies)
			})
		}
	}
}
