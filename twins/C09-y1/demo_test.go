package bip39

// Demonstration for twin pair 1 of property C09.
//
// The size gates must not depend on the Language argument: every Language
// value, including the ones without a word list of their own (which borrow
// the English list), accepts exactly the five BIP39 sizes.
//
//	go test -count=1 -run 'TestDemoC09' .

import (
	"errors"
	"io"
	"strings"
	"testing"
)

// countingSource delivers an endless deterministic stream and counts the
// bytes it handed out.
type countingSource struct{ delivered int }

func (c *countingSource) Read(p []byte) (int, error) {
	for i := range p {
		p[i] = byte(c.delivered*31 + 7)
		c.delivered++
	}
	return len(p), nil
}

var _ io.Reader = (*countingSource)(nil)

func demoLanguages() []Language {
	langs := []Language{-1 << 63, -256, -16, -2, -1}
	for lg := ChineseSimplified; lg <= Portuguese+8; lg++ {
		langs = append(langs, lg)
	}
	return append(langs, 31, 32, 64, 99, 100, 255, 256, 258, 1<<31 - 1, 1<<63 - 1)
}

func TestDemoC09EntropyGateIgnoresLanguage(t *testing.T) {
	valid := map[int]bool{16: true, 20: true, 24: true, 28: true, 32: true}
	for _, lg := range demoLanguages() {
		for n := -1; n <= 80; n++ {
			var entropy []byte // n == -1 is the nil slice
			if n >= 0 {
				entropy = make([]byte, n)
				for i := range entropy {
					entropy[i] = byte(i*13 + n)
				}
			}
			got, err := NewMnemonicByEntropy(entropy, lg)
			if valid[n] {
				if err != nil || got == "" {
					t.Errorf("NewMnemonicByEntropy(%d bytes, Language(%d)) = %q, %v; want a mnemonic and a nil error", n, lg, got, err)
					continue
				}
				sep := "\x20"
				if lg == Japanese {
					sep = "\u3000"
				}
				if words := len(strings.Split(got, sep)); words != n/4*3 {
					t.Errorf("NewMnemonicByEntropy(%d bytes, Language(%d)) has %d words, want %d", n, lg, words, n/4*3)
				}
				continue
			}
			if got != "" || !errors.Is(err, ErrEntropyLen) {
				t.Errorf("NewMnemonicByEntropy(%d bytes, Language(%d)) = %q, %v; want \"\" and ErrEntropyLen", n, lg, got, err)
			}
		}
	}
}

func TestDemoC09WordGateIgnoresLanguage(t *testing.T) {
	valid := map[int]bool{12: true, 15: true, 18: true, 21: true, 24: true}
	counts := []int{-1 << 63, -24, -12, -3, -1, 0, 1, 3, 6, 9, 27, 30, 33, 36, 48, 96, 1<<63 - 2, 1<<63 - 1}
	for n := 10; n <= 26; n++ {
		counts = append(counts, n)
	}
	saved := cryptoRander
	defer func() { cryptoRander = saved }()
	for _, lg := range demoLanguages() {
		for _, n := range counts {
			src := &countingSource{}
			cryptoRander = src
			got, err := NewMnemonic(n, lg)
			cryptoRander = saved
			if valid[n] {
				if err != nil || got == "" {
					t.Errorf("NewMnemonic(%d, Language(%d)) = %q, %v; want a mnemonic and a nil error", n, lg, got, err)
				} else if src.delivered != n/3*4 {
					t.Errorf("NewMnemonic(%d, Language(%d)) drew %d bytes, want %d", n, lg, src.delivered, n/3*4)
				}
				continue
			}
			if got != "" || !errors.Is(err, ErrWordLen) {
				t.Errorf("NewMnemonic(%d, Language(%d)) = %q, %v; want \"\" and ErrWordLen", n, lg, got, err)
			}
			if src.delivered != 0 {
				t.Errorf("NewMnemonic(%d, Language(%d)) drew %d bytes from the source before rejecting", n, lg, src.delivered)
			}
		}
	}
}
