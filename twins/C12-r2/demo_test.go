package bip39

// Demonstration for twin pair 2 (property C12).
//
//	go test -count=1 -run TestDemoSeedsUnderLoad -v .
//
// (the race detector is not needed; it may be added)
//
// Uses only the exported API: many more goroutines than processors derive
// seeds at the same time; every call must return, without panicking, exactly
// the seed that the same call returns when it runs alone.

import (
	"bytes"
	"encoding/hex"
	"fmt"
	"runtime"
	"sync"
	"testing"
)

func TestDemoSeedsUnderLoad(t *testing.T) {
	// Few processors, many callers. This is the first use of MnemonicToSeed in
	// the process when the test is run on its own (-run TestDemoSeedsUnderLoad).
	defer runtime.GOMAXPROCS(runtime.GOMAXPROCS(2))

	type input struct{ mnemonic, passphrase string }
	inputs := []input{
		{"abandon abandon abandon abandon abandon abandon abandon abandon abandon abandon abandon about", "TREZOR"},
		{"abandon abandon abandon abandon abandon abandon abandon abandon abandon abandon abandon about", ""},
		{"legal winner thank year wave sausage worth useful legal winner thank yellow", "TREZOR"},
		{"そつう　れきだい　ほんやく　わかす　りくつ　ばいか　ろせん　やちん　そつう　れきだい　ほんやく　わかめ", "㍍ガバヴァぱばぐゞちぢ十人十色"},
		{"", ""},
		{"zoo zoo zoo zoo zoo zoo zoo zoo zoo zoo zoo wrong", "a much longer passphrase, so that the buffers have to grow: " + string(make([]byte, 300))},
	}

	// sequential reference
	want := make([][]byte, len(inputs))
	for i, in := range inputs {
		want[i] = MnemonicToSeed(in.mnemonic, in.passphrase)
	}
	const trezor = "c55257c360c07c72029aebc1b53c05ed0362ada38ead3e3e9efa3708e53495531f09a6987599d18264c1e1c92f2cf141630c7a3c4ab7c81b2f001698e7463b04"
	if got := hex.EncodeToString(want[0]); got != trezor {
		t.Fatalf("sequential seed of the TREZOR vector = %s", got)
	}

	workers := 8*runtime.NumCPU() + 16
	const rounds = 12

	var (
		wg       sync.WaitGroup
		mu       sync.Mutex
		failures []string
	)
	fail := func(format string, a ...interface{}) {
		mu.Lock()
		failures = append(failures, fmt.Sprintf(format, a...))
		mu.Unlock()
	}
	start := make(chan struct{})
	for w := 0; w < workers; w++ {
		wg.Add(1)
		go func(w int) {
			defer wg.Done()
			<-start
			for r := 0; r < rounds; r++ {
				i := (w + r) % len(inputs)
				func() {
					defer func() {
						if p := recover(); p != nil {
							fail("worker %d round %d: MnemonicToSeed panicked: %v", w, r, p)
						}
					}()
					got := MnemonicToSeed(inputs[i].mnemonic, inputs[i].passphrase)
					if !bytes.Equal(got, want[i]) {
						fail("worker %d round %d: input %d: got %x, alone it gives %x", w, r, i, got, want[i])
					}
				}()
			}
		}(w)
	}
	close(start)
	wg.Wait()

	for i, f := range failures {
		if i == 10 {
			t.Errorf("... and %d more", len(failures)-10)
			break
		}
		t.Error(f)
	}

	// results handed out earlier must not have been touched by later calls
	for i, in := range inputs {
		if got := MnemonicToSeed(in.mnemonic, in.passphrase); !bytes.Equal(got, want[i]) {
			t.Errorf("input %d: seed differs after the load phase", i)
		}
	}
}
