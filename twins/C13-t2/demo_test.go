package bip39

import (
	"fmt"
	"testing"
)

// C13 demo (pair 2): the verdict on a mnemonic checked against an UNSUPPORTED
// Language value must not depend on which languages were used earlier in the
// process. In the unchanged code Language(100).mapping() is nil, so every word
// is "not found", no matter what has happened before.
//
// Run in a fresh process:  go test -count=1 -run 'TestDemoC13' .
func TestDemoC13UnsupportedLanguageIsHistoryIndependent(t *testing.T) {
	const english = "check fiscal fit sword unlock rough lottery tool sting pluck bulb random"
	unsupported := []Language{100, 10, -1, Language(int(^uint(0) >> 1))}

	outcome := func(lg Language) string {
		err := CheckMnemonic(english, lg)
		return fmt.Sprintf("valid=%v err=%v", IsMnemonicValid(english, lg), err)
	}
	const want = "valid=false err=word `check` at `0` not found in mnemonic mapping"

	// 1. before English has ever been checked (cold, when run with -run TestDemoC13)
	for _, lg := range unsupported {
		if got := outcome(lg); got != want {
			t.Errorf("cold: CheckMnemonic(english, Language(%d)): %s, want %s", int(lg), got, want)
		}
	}

	// 2. some other languages are used: still no influence
	for _, lg := range []Language{French, Japanese, Czech} {
		_ = IsMnemonicValid(english, lg)
	}
	for _, lg := range unsupported {
		if got := outcome(lg); got != want {
			t.Errorf("after French/Japanese/Czech: CheckMnemonic(english, Language(%d)): %s, want %s", int(lg), got, want)
		}
	}

	// 3. English is used for a check; the unsupported values must answer as before
	if err := CheckMnemonic(english, English); err != nil {
		t.Fatalf("CheckMnemonic(english, English) = %v", err)
	}
	for _, lg := range unsupported {
		if got := outcome(lg); got != want {
			t.Errorf("after an English check: CheckMnemonic(english, Language(%d)): %s, want %s (history dependence)", int(lg), got, want)
		}
	}
}
