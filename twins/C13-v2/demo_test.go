package bip39_test

// Demonstration for C13 (pair 2): the entropy handed to NewMnemonicByEntropy -
// and the memory around it, when it is a window into a larger buffer - is
// never written to, and the same argument gives the same mnemonic again.
//
// Run: go test -count=1 -run 'TestDemoC13' .

import (
	"bytes"
	"encoding/hex"
	"testing"

	"github.com/islishude/bip39"
)

func TestDemoC13EntropyWindowIsNotWritten(t *testing.T) {
	langs := []bip39.Language{bip39.English, bip39.Japanese, bip39.ChineseSimplified, 99}
	for _, n := range []int{16, 20, 24, 28, 32} {
		for _, spare := range []int{0, 1, 7, 40} {
			for _, lang := range langs {
				// the entropy is the window backing[8 : 8+n] of a larger buffer;
				// spare bytes follow it within the capacity of the slice
				backing := make([]byte, 8+n+spare)
				for i := range backing {
					backing[i] = byte(0xA0 + i)
				}
				before := append([]byte(nil), backing...)
				entropy := backing[8 : 8+n]

				first, err := bip39.NewMnemonicByEntropy(entropy, lang)
				if err != nil {
					t.Fatal(err)
				}
				if !bytes.Equal(backing[8:8+n], before[8:8+n]) {
					t.Errorf("n=%d spare=%d Language(%d): entropy modified by the call:\n had %x\n got %x",
						n, spare, int(lang), before[8:8+n], backing[8:8+n])
				}
				if !bytes.Equal(backing, before) {
					t.Errorf("n=%d spare=%d Language(%d): caller's buffer modified around the entropy:\n had %x\n got %x",
						n, spare, int(lang), before, backing)
				}
				again, err := bip39.NewMnemonicByEntropy(entropy, lang)
				if err != nil {
					t.Fatal(err)
				}
				if again != first {
					t.Errorf("n=%d spare=%d Language(%d): same slice, different mnemonic:\n 1st %q\n 2nd %q",
						n, spare, int(lang), first, again)
				}
				fresh, _ := bip39.NewMnemonicByEntropy(append([]byte(nil), before[8:8+n]...), lang)
				if fresh != first {
					t.Errorf("n=%d spare=%d Language(%d): result depends on the capacity of the slice", n, spare, int(lang))
				}
			}
		}
	}
}

// hex.DecodeString returns a slice whose capacity is twice its length: the
// most common way such an argument reaches the library.
func TestDemoC13DecodedHexIsNotWritten(t *testing.T) {
	const in = "79079bf165e25537e2dce15919440cc4"
	const want = "jungle devote wisdom slim census orbit merge order flip sketch add mass"
	entropy, _ := hex.DecodeString(in)
	for i := 0; i < 2; i++ {
		got, err := bip39.NewMnemonicByEntropy(entropy, bip39.English)
		if err != nil || got != want {
			t.Errorf("call %d: got %q, %v; want %q", i+1, got, err, want)
		}
		if hex.EncodeToString(entropy) != in {
			t.Errorf("call %d: entropy is now %x, was %s", i+1, entropy, in)
		}
	}
}
