package bip39

// Demonstration for twin pair 2 (property C07).
//
// A process that keeps generating mnemonics for a few seconds: at any moment,
// however long the process has been up or idle, NewMnemonic must draw exactly
// 4n/3 bytes from the randomness source and return the encoding of exactly
// those bytes - never anything derived from fixed data.

import (
	"crypto/sha256"
	"encoding/binary"
	"testing"
	"time"
)

// recordingSource hands out unique reproducible bytes and remembers what it
// delivered since the last reset.
type recordingSource struct {
	ctr       uint64
	delivered []byte
}

func (r *recordingSource) Read(p []byte) (int, error) {
	for off := 0; off < len(p); {
		var c [8]byte
		binary.BigEndian.PutUint64(c[:], r.ctr)
		r.ctr++
		sum := sha256.Sum256(c[:])
		off += copy(p[off:], sum[:])
	}
	r.delivered = append(r.delivered, p...)
	return len(p), nil
}

func TestDemoC07SourceIsUsedAtAnyUptime(t *testing.T) {
	src := &recordingSource{}
	saved := cryptoRander
	cryptoRander = src
	defer func() { cryptoRander = saved }()

	sizes := []int{12, 15, 18, 21, 24}
	start := time.Now()
	calls, failures := 0, 0
	// 5 s of steady use with short pauses, then one call after a long pause.
	for i := 0; ; i++ {
		up := time.Since(start)
		if up > 5*time.Second {
			break
		}
		n, lang := sizes[i%len(sizes)], Language(i%10)
		src.delivered = src.delivered[:0]
		got, err := NewMnemonic(n, lang)
		calls++
		if err != nil {
			t.Fatalf("call %d (up %v): unexpected error %v", i, up, err)
		}
		if len(src.delivered) != n+n/3 {
			failures++
			t.Errorf("call %d (up %v): NewMnemonic(%d, %v) drew %d bytes from the source, want %d", i, up.Round(time.Millisecond), n, lang, len(src.delivered), n+n/3)
		}
		want := ""
		if len(src.delivered) >= n+n/3 {
			want, _ = NewMnemonicByEntropy(src.delivered[:n+n/3], lang)
		}
		if got != want {
			failures++
			t.Errorf("call %d (up %v): NewMnemonic(%d, %v) = %q, which is not the encoding of the bytes the source delivered (%q)", i, up.Round(time.Millisecond), n, lang, got, want)
		}
		if failures >= 6 {
			break
		}
		if i%40 == 39 {
			time.Sleep(700 * time.Millisecond) // a lull
		} else {
			time.Sleep(20 * time.Millisecond)
		}
	}
	t.Logf("%d calls over %v", calls, time.Since(start).Round(time.Millisecond))
}
