package bip39

// Demonstration for twin pair 2 (property C12).
//
// Every trial is a fresh process (the test binary re-executes itself), so the
// lazy per-language word indexes are cold each time. In the child, for one
// language after the other, a handful of goroutines are released together and
// validate the same sentence of that language; the first of them finds the
// index missing and builds it, the others arrive while it is being built.
// Every call must return what it returns when run alone (nil / true), and the
// child must finish.
//
//	go test -count=1 -run 'TestColdStartSameLanguageBurst' .
//
// (-race is optional; the failure is callers blocked forever, not a data race.)

import (
	"bytes"
	"fmt"
	"os"
	"os/exec"
	"runtime"
	"sync"
	"testing"
	"time"
)

const (
	demoChildEnv   = "BIP39_DEMO_C12_CHILD"
	demoTrials     = 20
	demoBurst      = 6
	demoChildLimit = 5 * time.Second
)

// BIP39 reference vector: sixteen bytes 0x80, English.
const demoEnglish = "letter advice cage absurd amount doctor acoustic avoid letter advice cage above"

var demoLanguages = []Language{
	Japanese, Korean, Spanish, ChineseSimplified, ChineseTraditional,
	French, Italian, Czech, Portuguese, English,
}

func TestColdStartSameLanguageBurst(t *testing.T) {
	if os.Getenv(demoChildEnv) != "" {
		demoChild(t)
		return
	}
	for trial := 0; trial < demoTrials; trial++ {
		cmd := exec.Command(os.Args[0], "-test.run=^TestColdStartSameLanguageBurst$", "-test.count=1")
		cmd.Env = append(os.Environ(), fmt.Sprintf("%s=%d", demoChildEnv, trial+1))
		var out bytes.Buffer
		cmd.Stdout, cmd.Stderr = &out, &out
		if err := cmd.Start(); err != nil {
			t.Fatal(err)
		}
		done := make(chan error, 1)
		go func() { done <- cmd.Wait() }()
		select {
		case err := <-done:
			if err != nil {
				t.Fatalf("trial %d: cold-start process failed: %v\n%s", trial, err, out.String())
			}
		case <-time.After(demoChildLimit + 5*time.Second):
			_ = cmd.Process.Kill()
			t.Fatalf("trial %d: cold-start process hung\n%s", trial, out.String())
		}
	}
}

func demoChild(t *testing.T) {
	var seed int
	fmt.Sscan(os.Getenv(demoChildEnv), &seed)

	watchdog := time.AfterFunc(demoChildLimit, func() {
		buf := make([]byte, 1<<14)
		buf = buf[:runtime.Stack(buf, true)]
		fmt.Fprintf(os.Stderr, "DEADLOCK: calls still blocked after %v\n%s\n", demoChildLimit, buf)
		os.Exit(3)
	})
	defer watchdog.Stop()

	ent := bytes.Repeat([]byte{0x80}, 16)
	for i := range demoLanguages {
		lang := demoLanguages[(i+seed)%len(demoLanguages)]

		// Encoding does not need the word index, so this leaves it cold.
		sentence, err := NewMnemonicByEntropy(ent, lang)
		if err != nil {
			t.Fatalf("NewMnemonicByEntropy(0x80.., %v): %v", lang, err)
		}
		if lang == English && sentence != demoEnglish {
			t.Fatalf("NewMnemonicByEntropy(0x80.., English) = %q", sentence)
		}

		// First use of the index of lang, by demoBurst goroutines at once.
		var wg sync.WaitGroup
		start := make(chan struct{})
		errs := make(chan string, demoBurst)
		for g := 0; g < demoBurst; g++ {
			wg.Add(1)
			go func(g int) {
				defer wg.Done()
				<-start
				if g%2 == 0 {
					if err := CheckMnemonic(sentence, lang); err != nil {
						errs <- fmt.Sprintf("CheckMnemonic(%q, %v): %v", sentence, lang, err)
					}
				} else if !IsMnemonicValid(sentence, lang) {
					errs <- fmt.Sprintf("IsMnemonicValid(%q, %v) = false", sentence, lang)
				}
			}(g)
		}
		close(start)
		wg.Wait()
		close(errs)
		for e := range errs {
			t.Error(e)
		}
	}
}
