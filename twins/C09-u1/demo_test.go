package bip39_test

import (
	"errors"
	"math"
	"strings"
	"testing"

	"github.com/islishude/bip39"
)

// C09 demo, pair 1: every rejected entropy length must answer with an error
// matching ErrEntropyLen (and nothing else), every rejected word count with
// an error matching ErrWordLen; the five legal sizes succeed.
func TestDemoC09SentinelPerSize(t *testing.T) {
	okBytes := map[int]int{16: 12, 20: 15, 24: 18, 28: 21, 32: 24}

	check := func(name string, entropy []byte) {
		got, err := bip39.NewMnemonicByEntropy(entropy, bip39.English)
		if words, ok := okBytes[len(entropy)]; ok {
			if err != nil || got == "" {
				t.Errorf("%s: legal size rejected: %q, %v", name, got, err)
			} else if n := len(strings.Split(got, " ")); n != words {
				t.Errorf("%s: %d words, want %d", name, n, words)
			}
			return
		}
		if got != "" {
			t.Errorf("%s: rejected size returned a mnemonic %q", name, got)
		}
		if err == nil {
			t.Errorf("%s: illegal size accepted", name)
			return
		}
		if !errors.Is(err, bip39.ErrEntropyLen) {
			t.Errorf("%s: error %q does not match ErrEntropyLen", name, err)
		}
		if errors.Is(err, bip39.ErrWordLen) {
			t.Errorf("%s: entropy length reported as ErrWordLen", name)
		}
	}

	check("nil", nil)
	for n := 0; n <= 130; n++ {
		check("len="+itoa(n), make([]byte, n))
	}
	for _, n := range []int{256, 1024, 4096, 65536} {
		check("len="+itoa(n), make([]byte, n))
	}

	// The word-count side of the same table, through CheckMnemonic (which
	// needs no randomness) and NewMnemonic for rejected counts only.
	for n := 1; n <= 60; n++ {
		if n%3 == 0 && n >= 12 && n <= 24 {
			continue
		}
		m := strings.TrimSpace(strings.Repeat("abandon ", n))
		if err := bip39.CheckMnemonic(m, bip39.English); !errors.Is(err, bip39.ErrWordLen) {
			t.Errorf("CheckMnemonic with %d words: %v, want ErrWordLen", n, err)
		}
	}
	for _, n := range []int{math.MinInt64, math.MinInt32, -24, -12, -3, -1, 0, 1, 3, 6, 9, 11, 13, 14,
		16, 17, 19, 20, 22, 23, 25, 26, 27, 30, 33, 36, 48, math.MaxInt32, math.MaxInt64} {
		got, err := bip39.NewMnemonic(n, bip39.English)
		if got != "" || !errors.Is(err, bip39.ErrWordLen) || errors.Is(err, bip39.ErrEntropyLen) {
			t.Errorf("NewMnemonic(%d) = %q, %v; want \"\", ErrWordLen", n, got, err)
		}
	}
}

func itoa(n int) string {
	if n == 0 {
		return "0"
	}
	var b []byte
	for ; n > 0; n /= 10 {
		b = append([]byte{byte('0' + n%10)}, b...)
	}
	return string(b)
}
