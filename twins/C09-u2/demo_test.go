package bip39

import (
	"errors"
	"io"
	"math"
	"strings"
	"testing"
)

// demoSource is a randomness source that counts what is asked of it.
type demoSource struct {
	calls, bytes int
	next         byte
	fail         error // when set, every Read fails with it
}

func (s *demoSource) Read(p []byte) (int, error) {
	s.calls++
	if s.fail != nil {
		return 0, s.fail
	}
	for i := range p {
		s.next = s.next*31 + 7
		p[i] = s.next
	}
	s.bytes += len(p)
	return len(p), nil
}

// C09 demo, pair 2: a rejected word count answers "", ErrWordLen and leaves
// the randomness source untouched (no Read call, no byte drawn) - even when
// the source is broken; the five legal counts draw exactly 4n/3 bytes.
func TestDemoC09RejectedCountsDrawNothing(t *testing.T) {
	saved := cryptoRander
	defer func() { cryptoRander = saved }()

	counts := []int{math.MinInt64, math.MinInt64 + 1, math.MinInt32, -1 << 20, math.MaxInt32,
		math.MaxInt64 - 2, math.MaxInt64 - 1, math.MaxInt64}
	for n := -60; n <= 120; n++ {
		counts = append(counts, n)
	}

	for _, lang := range []Language{English, Japanese} {
		for _, n := range counts {
			legal := n >= 12 && n <= 24 && n%3 == 0

			src := &demoSource{}
			cryptoRander = src
			got, err := NewMnemonic(n, lang)
			if legal {
				sep := " "
				if lang == Japanese {
					sep = "　"
				}
				if err != nil || got == "" || len(strings.Split(got, sep)) != n {
					t.Errorf("NewMnemonic(%d, %v) = %q, %v; want %d words", n, lang, got, err, n)
				}
				if src.bytes != n+n/3 {
					t.Errorf("NewMnemonic(%d, %v) drew %d bytes, want %d", n, lang, src.bytes, n+n/3)
				}
				continue
			}
			if got != "" || !errors.Is(err, ErrWordLen) {
				t.Errorf("NewMnemonic(%d, %v) = %q, %v; want \"\", ErrWordLen", n, lang, got, err)
			}
			if src.calls != 0 || src.bytes != 0 {
				t.Errorf("NewMnemonic(%d, %v) is rejected but consumed randomness: %d Read call(s), %d byte(s)",
					n, lang, src.calls, src.bytes)
			}

			// the same with a dead source: the verdict must not depend on it
			dead := &demoSource{fail: io.ErrClosedPipe}
			cryptoRander = dead
			got, err = NewMnemonic(n, lang)
			if got != "" || !errors.Is(err, ErrWordLen) {
				t.Errorf("NewMnemonic(%d, %v) with a dead source = %q, %v; want \"\", ErrWordLen", n, lang, got, err)
			}
			if dead.calls != 0 {
				t.Errorf("NewMnemonic(%d, %v) is rejected but touched the dead source %d time(s)", n, lang, dead.calls)
			}
		}
	}
}
