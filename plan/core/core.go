// Package core holds the device types shared by the driver and the workers.
// It imports nothing, so that the pre-init seam package (presim -> dev -> core)
// becomes ready for initialisation the moment crypto/rand is - provably before
// github.com/islishude/bip39, which also needs crypto/rand and sorts later.
package core

// DevStep scripts one Read call of the simulated entropy device: deliver
// min(D, len(p)) bytes, then return the error named by E ("" = nil).
// D == 0 with E == "" is a stall (0, nil).
type DevStep struct {
	D int    `json:"d"`
	E string `json:"e,omitempty"` // "", eof, ueof, err, weof, closed
	J int64  `json:"j,omitempty"` // this Read takes J milliseconds of simulated time (clock seam) before it returns
	G bool   `json:"g,omitempty"` // this Read takes long enough for a garbage-collection cycle (and finalizers) to complete
}

// Dev is a device: a byte stream (explicit hex prefix, then a deterministic
// fill) and a script. After the script is exhausted the device serves the
// stream without faults, filling each buffer completely.
type Dev struct {
	Hex    string    `json:"hex,omitempty"`
	Fill   string    `json:"fill,omitempty"` // prng (default), zero, ff, counter
	Seed   uint64    `json:"seed,omitempty"`
	Script []DevStep `json:"script,omitempty"`
}

// ReadRec is one Read call as seen by the device.
type ReadRec struct {
	Asked int    `json:"a"`
	Gave  int    `json:"g"`
	Err   string `json:"e,omitempty"`
	Task  int    `json:"t,omitempty"`
	J     int64  `json:"took_sim_ms,omitempty"` // simulated milliseconds this Read took (clock seam)
}

func Mix(z uint64) uint64 {
	z += 0x9E3779B97F4A7C15
	z = (z ^ (z >> 30)) * 0xBF58476D1CE4E5B9
	z = (z ^ (z >> 27)) * 0x94D049BB133111EB
	return z ^ (z >> 31)
}

// FillByte is byte i of the deterministic extension of a device stream.
func FillByte(fill string, seed uint64, i int) byte {
	switch fill {
	case "zero":
		return 0
	case "ff":
		return 0xff
	case "counter":
		return byte(i)
	default: // "prng"
		return byte(Mix(seed^Mix(uint64(i/8))) >> (8 * uint(i%8)))
	}
}

// Unhex decodes a hex string; malformed input yields what could be decoded.
func Unhex(s string) []byte {
	val := func(c byte) int {
		switch {
		case c >= '0' && c <= '9':
			return int(c - '0')
		case c >= 'a' && c <= 'f':
			return int(c-'a') + 10
		case c >= 'A' && c <= 'F':
			return int(c-'A') + 10
		}
		return -1
	}
	out := make([]byte, 0, len(s)/2)
	for i := 0; i+1 < len(s); i += 2 {
		a, b := val(s[i]), val(s[i+1])
		if a < 0 || b < 0 {
			break
		}
		out = append(out, byte(a<<4|b))
	}
	return out
}
