// Package plan holds the explicit, JSON-serialisable description of one
// simulated run. A worker process executes a plan and nothing else: replay is
// a pure function of the plan file and the code.
package plan

import (
	"crypto/sha256"
	"encoding/hex"
	"encoding/json"
	"unicode/utf8"

	"a0verif/plan/core"
)

type DevStep = core.DevStep
type Dev = core.Dev
type ReadRec = core.ReadRec

// Op is one call of the exported API.
type Op struct {
	K    string `json:"k"` // ent, new, check, valid, seed, str
	Lang int    `json:"lang"`
	N    int    `json:"n,omitempty"`   // new: word count
	Ent  string `json:"ent,omitempty"` // ent: hex
	Nil  bool   `json:"nil,omitempty"` // ent: pass a nil slice
	Cap  int    `json:"cap,omitempty"` // ent: spare capacity behind the slice
	// ent, concurrent runs only: the slice is a window [:len] into caller buffer number Shared (1-based) that
	// other goroutines pass at the same time - read-only sharing of input memory is legal for callers
	Shared int    `json:"shared,omitempty"`
	M      string `json:"m,omitempty"`
	MX     string `json:"mx,omitempty"` // hex form, used when M is not valid UTF-8
	P      string `json:"p,omitempty"`
	PX     string `json:"px,omitempty"`
	Dev    *Dev   `json:"dev,omitempty"`
	// history-only behaviour of the simulated caller
	Scribble bool `json:"scribble,omitempty"` // overwrite own entropy buffer / returned seed after the call
	// the caller was idle for J milliseconds of simulated time before this call (clock seam; no argument of the call)
	J int64 `json:"j,omitempty"`
	// a garbage-collection cycle (and time for finalizers to run) is forced right after this call, before the caller
	// re-inspects what it holds (no argument of the call)
	GC bool `json:"gc,omitempty"`
}

func SetStr(s string) (plain, hx string) {
	if utf8.ValidString(s) {
		return s, ""
	}
	return "", hex.EncodeToString([]byte(s))
}

func GetStr(plain, hx string) string {
	if hx != "" {
		b, _ := hex.DecodeString(hx)
		return string(b)
	}
	return plain
}

func (o *Op) Mnemonic() string   { return GetStr(o.M, o.MX) }
func (o *Op) Passphrase() string { return GetStr(o.P, o.PX) }

// Key identifies a call by its arguments (and device), for the solo-oracle cache.
func (o *Op) Key() string {
	c := *o
	c.Scribble = false
	c.Cap = 0
	c.Shared = 0
	c.J = 0
	c.GC = false
	b, _ := json.Marshal(&c)
	s := sha256.Sum256(b)
	return hex.EncodeToString(s[:12])
}

// Outcome is the complete observable of one call. Strings are carried
// ASCII-quoted so that arbitrary bytes survive JSON.
type Outcome struct {
	Out   string   `json:"out"`             // quoted string / hex bytes / true|false
	Err   string   `json:"err,omitempty"`   // quoted error text, "" if err == nil
	IsNil bool     `json:"nil"`             // err == nil (always true for functions without an error result)
	Is    []string `json:"is,omitempty"`    // sentinels matched by errors.Is: wordlen, entlen, checksum
	Panic string   `json:"panic,omitempty"` // quoted recovered value
	Mut   string   `json:"mut,omitempty"`   // caller-owned memory found altered
}

func (a Outcome) Equal(b Outcome) bool {
	if a.Out != b.Out || a.Err != b.Err || a.IsNil != b.IsNil || a.Panic != b.Panic || a.Mut != b.Mut || len(a.Is) != len(b.Is) {
		return false
	}
	for i := range a.Is {
		if a.Is[i] != b.Is[i] {
			return false
		}
	}
	return true
}

func Digest(v interface{}) string {
	b, _ := json.Marshal(v)
	s := sha256.Sum256(b)
	return hex.EncodeToString(s[:8])
}
