package plan

import "a0verif/plan/core"

// Rand is the only source of pseudo-randomness in the framework: splitmix64.
// Every choice of a run derives from VERIF_SEED through Derive.
type Rand struct{ s uint64 }

func NewRand(seed uint64) *Rand { return &Rand{s: seed} }

func mix(z uint64) uint64 { return core.Mix(z) }

func (r *Rand) Uint64() uint64 {
	r.s += 0x9E3779B97F4A7C15
	z := r.s
	z = (z ^ (z >> 30)) * 0xBF58476D1CE4E5B9
	z = (z ^ (z >> 27)) * 0x94D049BB133111EB
	return z ^ (z >> 31)
}

// Intn returns a value in [0,n). n must be > 0.
func (r *Rand) Intn(n int) int { return int(r.Uint64() % uint64(n)) }

// Range returns a value in [lo,hi].
func (r *Rand) Range(lo, hi int) int { return lo + r.Intn(hi-lo+1) }

func (r *Rand) Float() float64 { return float64(r.Uint64()>>11) / (1 << 53) }

func (r *Rand) Bool() bool { return r.Uint64()&1 == 1 }

func (r *Rand) Bytes(n int) []byte {
	b := make([]byte, n)
	for i := range b {
		if i%8 == 0 {
			v := r.Uint64()
			for j := 0; j < 8 && i+j < n; j++ {
				b[i+j] = byte(v >> (8 * uint(j)))
			}
		}
	}
	return b
}

func (r *Rand) Perm(n int) []int {
	p := make([]int, n)
	for i := range p {
		p[i] = i
	}
	for i := n - 1; i > 0; i-- {
		j := r.Intn(i + 1)
		p[i], p[j] = p[j], p[i]
	}
	return p
}

// Derive gives the seed of run i of a named stream under a master seed.
func Derive(master uint64, name string, i uint64) uint64 {
	h := mix(master ^ 0xA0A0A0A0)
	for _, c := range []byte(name) {
		h = mix(h ^ uint64(c))
	}
	return mix(h ^ mix(i))
}

// FillByte is byte i of the deterministic extension of a device stream.
func FillByte(fill string, seed uint64, i int) byte { return core.FillByte(fill, seed, i) }
