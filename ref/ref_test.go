package ref

import (
	"bytes"
	"encoding/hex"
	"testing"
)

// Published BIP39 (Trezor) vectors: the model is validated against data that
// does not come from the code under test.
func TestVectors(t *testing.T) {
	cases := []struct{ ent, m string }{
		{"00000000000000000000000000000000", "abandon abandon abandon abandon abandon abandon abandon abandon abandon abandon abandon about"},
		{"7f7f7f7f7f7f7f7f7f7f7f7f7f7f7f7f", "legal winner thank year wave sausage worth useful legal winner thank yellow"},
		{"80808080808080808080808080808080", "letter advice cage absurd amount doctor acoustic avoid letter advice cage above"},
		{"ffffffffffffffffffffffffffffffff", "zoo zoo zoo zoo zoo zoo zoo zoo zoo zoo zoo wrong"},
		{"000000000000000000000000000000000000000000000000", "abandon abandon abandon abandon abandon abandon abandon abandon abandon abandon abandon abandon abandon abandon abandon abandon abandon agent"},
		{"ffffffffffffffffffffffffffffffffffffffffffffffff", "zoo zoo zoo zoo zoo zoo zoo zoo zoo zoo zoo zoo zoo zoo zoo zoo zoo when"},
		{"0000000000000000000000000000000000000000000000000000000000000000", "abandon abandon abandon abandon abandon abandon abandon abandon abandon abandon abandon abandon abandon abandon abandon abandon abandon abandon abandon abandon abandon abandon abandon art"},
		{"68a79eaca2324873eacc50cb9c6eca8cc68ea5d936f98787c60c7ebc74e6ce7c", "hamster diagram private dutch cause delay private meat slide toddler razor book happy fancy gospel tennis maple dilemma loan word shrug inflict delay length"},
		{"9e885d952ad362caeb4efe34a8e91bd2", "ozone drill grab fiber curtain grace pudding thank cruise elder eight picnic"},
		{"6610b25967cdcca9d59875f5cb50b0ea75433311869e930b", "gravity machine north sort system female filter attitude volume fold club stay feature office ecology stable narrow fog"},
		{"f585c11aec520db57dd353c69554b21a89b20fb0650966fa0a9d6f74fd989d8f", "void come effort suffer camp survey warrior heavy shoot primary clutch crush open amazing screen patrol group space point ten exist slush involve unfold"},
	}
	for _, c := range cases {
		e, _ := hex.DecodeString(c.ent)
		if got := Encode(e, English); got != c.m {
			t.Errorf("%s: got %q", c.ent, got)
		}
		d, ok, err := Decode(c.m, English)
		if err != nil || !ok || !bytes.Equal(d, e) {
			t.Errorf("decode %s: %x %v %v", c.ent, d, ok, err)
		}
	}
	// Japanese vector from the BIP's test-vectors (entropy 00..00, ideographic-space separated)
	e, _ := hex.DecodeString("00000000000000000000000000000000")
	want := "あいこくしん　あいこくしん　あいこくしん　あいこくしん　あいこくしん　あいこくしん　あいこくしん　あいこくしん　あいこくしん　あいこくしん　あいこくしん　あおぞら"
	if got := Encode(e, Japanese); got != normNFKDJP(want) {
		t.Errorf("japanese: %q", got)
	}
}

// the Japanese list is stored NFKD; the literal above contains the precomposed ぞ (U+305E)
func normNFKDJP(s string) string {
	return string(bytes.ReplaceAll([]byte(s), []byte("ぞ"), []byte("ぞ")))
}
