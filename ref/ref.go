// Package ref is an independent, bit-wise BIP39 reference model over frozen
// word lists (extracted once from the pinned commit and pinned by SHA-256; the
// digests equal those of the lists published with the BIP). It shares no code
// with /repo: no math/big, no lookup maps built by the code under test.
package ref

import (
	"crypto/sha256"
	"embed"
	"encoding/hex"
	"fmt"
	"strings"
)

//go:embed wordlists/*.txt
var files embed.FS

// Language numbers mirror the declared order of the API's constants.
const (
	ChineseSimplified = iota
	ChineseTraditional
	English
	French
	Italian
	Japanese
	Korean
	Spanish
	Czech
	Portuguese
	NumLang
)

var FileNames = [NumLang]string{
	"chinese_simplified", "chinese_traditional", "english", "french", "italian",
	"japanese", "korean", "spanish", "czech", "portuguese",
}

var VarNames = [NumLang]string{
	"ChineseSimplified", "ChineseTraditional", "English", "French", "Italian",
	"Japanese", "Korean", "Spanish", "Czech", "Portuguese",
}

var Digests = [NumLang]string{
	"5c5942792bd8340cb8b27cd592f1015edf56a8c5b26276ee18a482428e7c5726",
	"417b26b3d8500a4ae3d59717d7011952db6fc2fb84b807f3f94ac734e89c1b5f",
	"2f5eed53a4727b4bf8880d8f3f199efc90e58503646d9ff8eff3a2ed3b24dbda",
	"ebc3959ab7801a1df6bac4fa7d970652f1df76b683cd2f4003c941c63d517e59",
	"d392c49fdb700a24cd1fceb237c1f65dcc128f6b34a8aacb58b59384b5c648c2",
	"2eed0aef492291e061633d7ad8117f1a2b03eb80a29d0e4e3117ac2528d05ffd",
	"9e95f86c167de88f450f0aaf89e87f6624a57f973c67b516e338e8e8b8897f60",
	"46846a5a0139d1e3cb77293e521c2865f7bcdb82c44e8d0a06a2cd0ecba48c0b",
	"7e80e161c3e93d9554c2efb78d4e3cebf8fc727e9c52e03b83b94406bdcc95fc",
	"2685e9c194c82ae67e10ba59d9ea5345a23dc093e92276fc5361f6667d79cd3f",
}

var lists [NumLang][]string
var index [NumLang]map[string]int

func init() {
	for l := 0; l < NumLang; l++ {
		b, err := files.ReadFile("wordlists/" + FileNames[l] + ".txt")
		if err != nil {
			panic(err)
		}
		sum := sha256.Sum256(b)
		if hex.EncodeToString(sum[:]) != Digests[l] {
			panic("ref: frozen word list " + FileNames[l] + " does not match its pinned digest")
		}
		w := strings.Split(strings.TrimSuffix(string(b), "\n"), "\n")
		if len(w) != 2048 {
			panic("ref: list length")
		}
		lists[l] = w
		index[l] = make(map[string]int, 2048)
		for i, s := range w {
			index[l][s] = i
		}
	}
}

// List returns the frozen list of a supported language.
func List(lang int) []string { return lists[lang] }

// Raw returns the frozen upstream text of a list (LF separated, trailing LF).
func Raw(lang int) []byte {
	b, _ := files.ReadFile("wordlists/" + FileNames[lang] + ".txt")
	return b
}

// Supported reports whether lang is one of the ten declared languages.
func Supported(lang int) bool { return lang >= 0 && lang < NumLang }

// Sep is the word separator emitted for a language.
func Sep(lang int) string {
	if lang == Japanese {
		return "\u3000"
	}
	return " "
}

// ValidEntLen reports whether n is one of 16, 20, 24, 28, 32.
func ValidEntLen(n int) bool { return n >= 16 && n <= 32 && n%4 == 0 }

// ValidWordCount reports whether n is one of 12, 15, 18, 21, 24.
func ValidWordCount(n int) bool { return n >= 12 && n <= 24 && n%3 == 0 }

// Indices returns the 11-bit groups of entropy||checksum, most significant first.
func Indices(ent []byte) []int {
	if !ValidEntLen(len(ent)) {
		panic("ref: entropy length")
	}
	cs := len(ent) / 4 // checksum bits
	h := sha256.Sum256(ent)
	total := len(ent)*8 + cs
	bit := func(i int) int {
		if i < len(ent)*8 {
			return int(ent[i/8]>>(7-uint(i%8))) & 1
		}
		j := i - len(ent)*8
		return int(h[j/8]>>(7-uint(j%8))) & 1
	}
	out := make([]int, 0, total/11)
	for w := 0; w < total/11; w++ {
		v := 0
		for b := 0; b < 11; b++ {
			v = v<<1 | bit(w*11+b)
		}
		out = append(out, v)
	}
	return out
}

// Encode is the BIP39 sentence for (entropy, language). Unsupported language
// values are not part of the model; callers must not ask.
func Encode(ent []byte, lang int) string {
	idx := Indices(ent)
	w := make([]string, len(idx))
	for i, v := range idx {
		w[i] = lists[lang][v]
	}
	return strings.Join(w, Sep(lang))
}

// Decode inverts Encode for a sentence in the exact form Encode emits (single
// separators, list words). It returns the entropy and whether the checksum is
// right.
func Decode(m string, lang int) (ent []byte, checksumOK bool, err error) {
	words := strings.Split(m, Sep(lang))
	if !ValidWordCount(len(words)) {
		return nil, false, fmt.Errorf("ref: %d words", len(words))
	}
	bits := make([]byte, 0, len(words)*11)
	for i, w := range words {
		v, ok := index[lang][w]
		if !ok {
			return nil, false, fmt.Errorf("ref: word %d (%q) not in list", i, w)
		}
		for b := 10; b >= 0; b-- {
			bits = append(bits, byte(v>>uint(b))&1)
		}
	}
	cs := len(words) / 3
	entBits := len(bits) - cs
	ent = make([]byte, entBits/8)
	for i := 0; i < entBits; i++ {
		ent[i/8] |= bits[i] << (7 - uint(i%8))
	}
	h := sha256.Sum256(ent)
	ok := true
	for j := 0; j < cs; j++ {
		if bits[entBits+j] != (h[j/8]>>(7-uint(j%8)))&1 {
			ok = false
		}
	}
	return ent, ok, nil
}
