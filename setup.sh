#!/bin/bash
# Builds the driver (stdlib only) and primes the Go build cache, offline.
set -e
cd "$(dirname "$0")"
export GOFLAGS=-mod=mod GOPROXY=off GOSUMDB=off GOTOOLCHAIN=local
mkdir -p bin evidence replays
go build -o bin/verif ./cmd/verif
# prime the cache: plain and race builds of the standard library parts the harness needs
go build -tags verif -o /dev/null ./harness/srcsim ./harness/coldsim 2>/dev/null || true
go build -race -o /dev/null ./cmd/verif 2>/dev/null || true
echo setup-ok
