package instr

import (
	"go/ast"
	"go/parser"
	"go/token"
	"os"
	"path/filepath"
	"sort"
	"strconv"
	"strings"
)

// EnvNames lists the environment variables the root package of dir reads with a
// name that is a string literal or a package-level string constant; other reads
// of the environment (non-literal names, os.Environ) are reported in opaque.
// The environment is a configuration input behind no seam of its own; knowing the
// names lets the simulator vary it.
func EnvNames(dir string) (names []string, opaque []string) {
	files, err := libraryFiles(dir)
	if err != nil {
		return nil, nil
	}
	return envNamesOf(dir, files)
}

// commandFiles lists the non-test Go files below dir/sub (a command and the packages next to it), hook files excluded.
func commandFiles(dir, sub string) []string {
	var out []string
	filepath.Walk(filepath.Join(dir, filepath.FromSlash(sub)), func(p string, info os.FileInfo, err error) error {
		if err != nil || info.IsDir() {
			return nil
		}
		n := info.Name()
		if strings.HasSuffix(n, ".go") && !strings.HasSuffix(n, "_test.go") && !strings.HasPrefix(n, "verif_") {
			if rel, err := filepath.Rel(dir, p); err == nil {
				out = append(out, filepath.ToSlash(rel))
			}
		}
		return nil
	})
	sort.Strings(out)
	return out
}

// ToolEnvNames is EnvNames for a command (C17: the update-wordlist tool); ToolEnvValues its value candidates.
func ToolEnvNames(dir, sub string) (names []string, opaque []string) {
	return envNamesOf(dir, commandFiles(dir, sub))
}

func ToolEnvValues(dir, sub string) []string { return envValuesOf(dir, commandFiles(dir, sub)) }

func envNamesOf(dir string, files []string) (names []string, opaque []string) {
	seen := map[string]bool{}
	for _, name := range files {
		fset := token.NewFileSet()
		f, err := parser.ParseFile(fset, filepath.Join(dir, filepath.FromSlash(name)), nil, 0)
		if err != nil {
			continue
		}
		consts := map[string]string{}
		nOpaque := len(opaque)
		ast.Inspect(f, func(n ast.Node) bool {
			if vs, ok := n.(*ast.ValueSpec); ok {
				for i, nm := range vs.Names {
					if i < len(vs.Values) {
						if bl, ok := vs.Values[i].(*ast.BasicLit); ok && bl.Kind == token.STRING {
							if s, err := strconv.Unquote(bl.Value); err == nil {
								consts[nm.Name] = s
							}
						}
					}
				}
			}
			return true
		})
		ast.Inspect(f, func(n ast.Node) bool {
			call, ok := n.(*ast.CallExpr)
			if !ok {
				return true
			}
			sel, ok := call.Fun.(*ast.SelectorExpr)
			if !ok {
				return true
			}
			pkg, ok := sel.X.(*ast.Ident)
			if !ok || (pkg.Name != "os" && pkg.Name != "syscall") {
				return true
			}
			switch sel.Sel.Name {
			case "Getenv", "LookupEnv":
				if len(call.Args) != 1 {
					return true
				}
				switch a := call.Args[0].(type) {
				case *ast.BasicLit:
					if s, err := strconv.Unquote(a.Value); err == nil && !seen[s] {
						seen[s] = true
						names = append(names, s)
					}
				case *ast.Ident:
					if s, ok := consts[a.Name]; ok {
						if !seen[s] {
							seen[s] = true
							names = append(names, s)
						}
					} else {
						opaque = append(opaque, name+": "+sel.Sel.Name+"("+a.Name+")")
					}
				default:
					opaque = append(opaque, name+": "+sel.Sel.Name+"(<expression>)")
				}
			case "Environ":
				opaque = append(opaque, name+": "+pkg.Name+".Environ()")
			}
			return true
		})
		// a name that is computed (a loop over a table of names, a prefix plus a suffix): every string
		// literal of that file that is shaped like a variable name is a candidate; setting a variable
		// nobody reads changes nothing
		if len(opaque) > nOpaque {
			ast.Inspect(f, func(n ast.Node) bool {
				bl, ok := n.(*ast.BasicLit)
				if !ok || bl.Kind != token.STRING {
					return true
				}
				s, err := strconv.Unquote(bl.Value)
				if err != nil || len(s) < 2 || len(s) > 40 || seen[s] {
					return true
				}
				for i, c := range s {
					if !(c >= 'A' && c <= 'Z' || c == '_' || i > 0 && c >= '0' && c <= '9') {
						return true
					}
				}
				seen[s] = true
				names = append(names, s)
				return true
			})
		}
	}
	sort.Strings(names)
	if len(names) > 24 {
		names = names[:24]
	}
	return names, opaque
}

// EnvValueCandidates collects short, simple string literals of the root package: values an
// environment variable is plausibly compared with ("off", "full", "1", a path, ...).
func EnvValueCandidates(dir string) []string {
	files, err := libraryFiles(dir)
	if err != nil {
		return nil
	}
	return envValuesOf(dir, files)
}

func envValuesOf(dir string, files []string) []string {
	seen := map[string]bool{}
	var out []string
	for _, name := range files {
		fset := token.NewFileSet()
		f, err := parser.ParseFile(fset, filepath.Join(dir, filepath.FromSlash(name)), nil, 0)
		if err != nil {
			continue
		}
		uses := false
		ast.Inspect(f, func(n ast.Node) bool {
			if sel, ok := n.(*ast.SelectorExpr); ok && (sel.Sel.Name == "Getenv" || sel.Sel.Name == "LookupEnv") {
				uses = true
			}
			return true
		})
		if !uses {
			continue
		}
		ast.Inspect(f, func(n ast.Node) bool {
			bl, ok := n.(*ast.BasicLit)
			if !ok || bl.Kind != token.STRING {
				return true
			}
			s, err := strconv.Unquote(bl.Value)
			if err != nil || len(s) == 0 || len(s) > 16 || seen[s] {
				return true
			}
			for _, c := range s {
				if !(c >= 'a' && c <= 'z' || c >= 'A' && c <= 'Z' || c >= '0' && c <= '9' || c == '_' || c == '-' || c == '.' || c == '/') {
					return true
				}
			}
			seen[s] = true
			out = append(out, s)
			return true
		})
	}
	sort.Strings(out)
	if len(out) > 16 {
		out = out[:16]
	}
	return out
}
