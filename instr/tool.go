package instr

import (
	"fmt"
	"go/ast"
	"go/parser"
	"go/token"
	"os"
	"path/filepath"
	"strings"
)

func isStringKeyMap(e ast.Expr) bool {
	switch x := e.(type) {
	case *ast.MapType:
		id, ok := x.Key.(*ast.Ident)
		return ok && id.Name == "string"
	case *ast.CompositeLit:
		return x.Type != nil && isStringKeyMap(x.Type)
	case *ast.CallExpr:
		if id, ok := x.Fun.(*ast.Ident); ok && id.Name == "make" && len(x.Args) > 0 {
			return isStringKeyMap(x.Args[0])
		}
	}
	return false
}

// Tool rewrites, in the scratch copy, every `range` over an identifier that is
// syntactically a map[string]... in the generator's package to range over
// zzsimrt.Keys(m), so that the fetch order is chosen by the simulator.
func Tool(dir, sub string) (*Report, error) {
	mod, err := modulePath(dir)
	if err != nil {
		return nil, err
	}
	rep := &Report{Module: mod}
	rtPath := mod + "/zzsimrt"
	if err := writeRuntime(dir, rtPath); err != nil {
		return nil, err
	}
	tdir := filepath.Join(dir, sub)
	ents, err := os.ReadDir(tdir)
	if err != nil {
		return nil, err
	}
	for _, ent := range ents {
		name := ent.Name()
		if ent.IsDir() || !strings.HasSuffix(name, ".go") || strings.HasSuffix(name, "_test.go") || strings.HasPrefix(name, "verif_") {
			continue
		}
		path := filepath.Join(tdir, name)
		src, err := os.ReadFile(path)
		if err != nil {
			return nil, err
		}
		fset := token.NewFileSet()
		f, err := parser.ParseFile(fset, path, src, parser.ParseComments)
		if err != nil {
			return nil, fmt.Errorf("instrumenter cannot parse %s: %v", name, err)
		}
		off := func(p token.Pos) int { return fset.Position(p).Offset }
		// identifiers that are syntactically string-keyed maps
		maps := map[string]bool{}
		ast.Inspect(f, func(n ast.Node) bool {
			switch x := n.(type) {
			case *ast.ValueSpec:
				for i, nm := range x.Names {
					if (x.Type != nil && isStringKeyMap(x.Type)) || (i < len(x.Values) && isStringKeyMap(x.Values[i])) {
						maps[nm.Name] = true
					}
				}
			case *ast.AssignStmt:
				if x.Tok == token.DEFINE {
					for i, l := range x.Lhs {
						if id, ok := l.(*ast.Ident); ok && i < len(x.Rhs) && isStringKeyMap(x.Rhs[i]) {
							maps[id.Name] = true
						}
					}
				}
			}
			return true
		})
		var edits []edit
		var cut [][2]int // source ranges replaced
		ast.Inspect(f, func(n ast.Node) bool {
			rs, ok := n.(*ast.RangeStmt)
			if !ok {
				return true
			}
			id, ok := rs.X.(*ast.Ident)
			if !ok || !maps[id.Name] {
				rep.OtherRanges++
				return true
			}
			key, val := "zzk", ""
			if k, ok := rs.Key.(*ast.Ident); ok && k.Name != "_" {
				key = k.Name
			} else if rs.Key != nil {
				if _, isID := rs.Key.(*ast.Ident); !isID {
					rep.OtherRanges++
					return true
				}
			}
			if v, ok := rs.Value.(*ast.Ident); ok && v.Name != "_" {
				val = v.Name
			} else if rs.Value != nil {
				if _, isID := rs.Value.(*ast.Ident); !isID {
					rep.OtherRanges++
					return true
				}
			}
			if rs.Tok != token.DEFINE && rs.Tok != token.ILLEGAL {
				rep.OtherRanges++ // assignment form: left alone
				return true
			}
			head := "for _, " + key + " := range zzsimrt.Keys(" + id.Name + ") {"
			if val != "" {
				head += " " + val + " := " + id.Name + "[" + key + "];"
			}
			cut = append(cut, [2]int{off(rs.For), off(rs.Body.Lbrace) + 1})
			edits = append(edits, edit{off: off(rs.For), text: head})
			rep.MapRanges++
			return true
		})
		if len(edits) == 0 {
			continue
		}
		// apply: replace [from,to) by the new loop head (process from the end)
		out := append([]byte(nil), src...)
		for i := len(cut) - 1; i >= 0; i-- {
			out = append(append(append([]byte{}, out[:cut[i][0]]...), []byte(edits[i].text)...), out[cut[i][1]:]...)
		}
		// import on the package-clause line
		pe := off(f.Name.End())
		out = append(append(append([]byte{}, out[:pe]...), []byte(`; import zzsimrt "`+rtPath+`"`)...), out[pe:]...)
		if err := os.WriteFile(path, out, 0644); err != nil {
			return nil, err
		}
	}
	return rep, nil
}
