// Package instr instruments a SCRATCH COPY of the repository (never /repo):
// a zzsimrt.Yield(<site>) before every statement of package bip39, the import
// "sync" redirected to a cooperative shim wrapping the real sync types, and
// (for the tool) map ranges redirected to a seed-permuted key order. Edits are
// textual insertions at AST offsets on the same line, so comments, directives
// and line numbers survive.
package instr

import (
	"embed"
	"fmt"
	"go/ast"
	"go/parser"
	"go/token"
	"os"
	slashpath "path"
	"path/filepath"
	"sort"
	"strconv"
	"strings"
)

//go:embed tmpl/*
var tmpl embed.FS

type Site struct {
	ID   int    `json:"id"`
	File string `json:"file"`
	Line int    `json:"line"`
	Func string `json:"func"`
	Tag  string `json:"tag,omitempty"` // after-once-do, in-once-func, loop-body, ...
}

type Report struct {
	Module       string   `json:"module"`
	Sites        []Site   `json:"sites"`
	SyncFiles    []string `json:"sync_rewritten_in"`
	Unmodelled   []string `json:"unmodelled"` // go statements, channel ops, select, time.Sleep...
	ChanBrackets int      `json:"channel_statements_bracketed"`
	MapRanges    int      `json:"map_ranges_rewritten"`
	OtherRanges  int      `json:"uncontrolled_ranges"`
}

type edit struct {
	off  int
	text string
	del  int // bytes of the source removed at off (after text is written)
}

func apply(src []byte, edits []edit) []byte {
	sort.SliceStable(edits, func(a, b int) bool { return edits[a].off < edits[b].off })
	var out []byte
	last := 0
	for _, e := range edits {
		out = append(out, src[last:e.off]...)
		out = append(out, e.text...)
		last = e.off + e.del
	}
	return append(out, src[last:]...)
}

func modulePath(dir string) (string, error) {
	b, err := os.ReadFile(filepath.Join(dir, "go.mod"))
	if err != nil {
		return "", err
	}
	for _, l := range strings.Split(string(b), "\n") {
		f := strings.Fields(l)
		if len(f) == 2 && f[0] == "module" {
			return strings.Trim(f[1], `"`), nil
		}
	}
	return "", fmt.Errorf("no module line in go.mod")
}

func isOnceDo(s ast.Stmt) bool {
	es, ok := s.(*ast.ExprStmt)
	if !ok {
		return false
	}
	call, ok := es.X.(*ast.CallExpr)
	if !ok {
		return false
	}
	sel, ok := call.Fun.(*ast.SelectorExpr)
	return ok && sel.Sel.Name == "Do"
}

// hasChanOp reports whether n contains a channel send or receive outside function literals.
// hasCall reports whether n contains a call (outside function literals): an operand that may run code of the
// tree under test, which must not happen while the task is detached from the token.
func hasCall(n ast.Node) bool {
	found := false
	ast.Inspect(n, func(c ast.Node) bool {
		switch c.(type) {
		case *ast.FuncLit:
			return false
		case *ast.CallExpr:
			found = true
		}
		return !found
	})
	return found
}

func hasFuncLit(n ast.Node) bool {
	found := false
	ast.Inspect(n, func(c ast.Node) bool {
		if _, ok := c.(*ast.FuncLit); ok {
			found = true
		}
		return !found
	})
	return found
}

func hasChanOp(n ast.Node) bool {
	found := false
	ast.Inspect(n, func(c ast.Node) bool {
		switch x := c.(type) {
		case *ast.FuncLit:
			return false
		case *ast.SendStmt:
			found = true
		case *ast.UnaryExpr:
			if x.Op == token.ARROW {
				found = true
			}
		}
		return !found
	})
	return found
}

// libraryFiles lists, relative to dir and in a fixed order, the non-test Go files of the root
// package and of every library package below it (internal/..., sub-packages): lazy state that
// a change moves out of the root package is scheduled like the rest. Commands (package main,
// the update-wordlist tool), the generated runtime, vendor and testdata trees and the verif_
// hook files are left alone.
func libraryFiles(dir string) ([]string, error) {
	var out []string
	var visit func(rel string) error
	visit = func(rel string) error {
		ents, err := os.ReadDir(filepath.Join(dir, filepath.FromSlash(rel)))
		if err != nil {
			return err
		}
		var files, subs []string
		isMain := false
		for _, ent := range ents {
			name := ent.Name()
			if ent.IsDir() {
				if name == "zzsimrt" || name == "zzclock" || name == "vendor" || name == "testdata" || strings.HasPrefix(name, ".") || strings.HasPrefix(name, "_") {
					continue
				}
				subs = append(subs, name)
				continue
			}
			if !strings.HasSuffix(name, ".go") || strings.HasSuffix(name, "_test.go") || strings.HasPrefix(name, "verif_") {
				continue
			}
			full := filepath.Join(dir, filepath.FromSlash(rel), name)
			if rel != "" {
				f, err := parser.ParseFile(token.NewFileSet(), full, nil, parser.PackageClauseOnly)
				if err != nil {
					return fmt.Errorf("instrumenter cannot parse %s: %v", slashpath.Join(rel, name), err)
				}
				if f.Name.Name == "main" {
					isMain = true
				}
			}
			files = append(files, slashpath.Join(rel, name))
		}
		if !isMain {
			out = append(out, files...)
		}
		for _, sd := range subs {
			if err := visit(slashpath.Join(rel, sd)); err != nil {
				return err
			}
		}
		return nil
	}
	if err := visit(""); err != nil {
		return nil, err
	}
	return out, nil
}

// Hoist switches the hoisting of receives inside larger statements (see below) on; the driver turns it off and
// instruments a fresh copy again if a tree does not build with it.
var Hoist = true

// Library instruments the root package of the scratch copy in dir and the library packages
// below it.
func Library(dir string) (*Report, error) {
	mod, err := modulePath(dir)
	if err != nil {
		return nil, err
	}
	rep := &Report{Module: mod}
	rtPath := mod + "/zzsimrt"
	names, err := libraryFiles(dir)
	if err != nil {
		return nil, err
	}
	next := 1 // site 0 is reserved for the simulated device's Read
	for _, name := range names {
		path := filepath.Join(dir, filepath.FromSlash(name))
		src, err := os.ReadFile(path)
		if err != nil {
			return nil, err
		}
		fset := token.NewFileSet()
		f, err := parser.ParseFile(fset, path, src, parser.ParseComments)
		if err != nil {
			return nil, fmt.Errorf("instrumenter cannot parse %s: %v", name, err)
		}
		off := func(p token.Pos) int { return fset.Position(p).Offset }
		var edits []edit
		// sync import -> shim
		for _, im := range f.Imports {
			if im.Path.Value == `"sync"` {
				// replace the literal, then re-parse because offsets changed
				src = append(append(append([]byte{}, src[:off(im.Path.Pos())]...), []byte(`"`+rtPath+`/simsync"`)...), src[off(im.Path.End()):]...)
				rep.SyncFiles = append(rep.SyncFiles, name)
				// offsets changed: re-parse
				fset = token.NewFileSet()
				f, err = parser.ParseFile(fset, path, src, parser.ParseComments)
				if err != nil {
					return nil, err
				}
				edits = nil
				break
			}
		}
		off = func(p token.Pos) int { return fset.Position(p).Offset }
		for _, im := range f.Imports { // sources of nondeterminism that are behind no seam
			switch im.Path.Value {
			case `"time"`, `"math/rand"`, `"math/rand/v2"`, `"os"`, `"runtime"`:
				rep.Unmodelled = append(rep.Unmodelled, name+" imports "+im.Path.Value)
			case `"` + mod + `/zzclock/simtime"`: // Now/Since/Until are behind the clock seam; timers, tickers and Sleep are real
				rep.Unmodelled = append(rep.Unmodelled, name+` imports "time"`)
			}
		}
		curFunc := ""
		inOnce := 0
		var bracketed [][2]token.Pos     // statements that already run detached from the token, and select communications
		blockStmt := map[ast.Stmt]bool{} // the statements of block lists (each has a yield in front of it)
		var visitBlock func(list []ast.Stmt, tag string)
		var walk func(n ast.Node)
		visitBlock = func(list []ast.Stmt, tag string) {
			for i, s := range list {
				t := tag
				if i > 0 && isOnceDo(list[i-1]) {
					t = "after-once-do"
				}
				if inOnce > 0 && t == "" {
					t = "in-once-func"
				}
				blockStmt[s] = true
				id := next
				next++
				pos := fset.Position(s.Pos())
				rep.Sites = append(rep.Sites, Site{ID: id, File: name, Line: pos.Line, Func: curFunc, Tag: t})
				edits = append(edits, edit{off: off(s.Pos()), text: "zzsimrt.Yield(" + strconv.Itoa(id) + "); "})
				// A statement that may block in a channel operation hands the token back for its
				// duration (the operation itself runs for real) and queues for the token afterwards.
				switch x := s.(type) {
				case *ast.ExprStmt, *ast.SendStmt, *ast.AssignStmt, *ast.DeclStmt:
					snd, isSend := s.(*ast.SendStmt)
					switch {
					case !hasChanOp(s):
					case !hasCall(s) || !Hoist:
						// no operand of the statement runs code of its own: the whole statement runs detached
						bracketed = append(bracketed, [2]token.Pos{s.Pos(), s.End()})
						edits = append(edits, edit{off: off(s.Pos()), text: "zzsimrt.BeginBlocking(); "})
						edits = append(edits, edit{off: off(s.End()), text: "; zzsimrt.EndBlocking()"})
						rep.ChanBrackets++
					case isSend && !hasChanOp(snd.Chan) && !hasChanOp(snd.Value) && !hasFuncLit(s):
						// ch <- f(): the operands are evaluated with the token (f may lock, build a table, yield);
						// only the send itself runs detached
						n := strconv.Itoa(off(s.Pos()))
						bracketed = append(bracketed, [2]token.Pos{s.Pos(), s.End()})
						edits = append(edits, edit{off: off(s.Pos()), del: off(s.End()) - off(s.Pos()),
							text: "zzc" + n + ", zzs" + n + " := " + string(src[off(snd.Chan.Pos()):off(snd.Chan.End())]) + ", " + string(src[off(snd.Value.Pos()):off(snd.Value.End())]) +
								"; zzsimrt.BeginBlocking(); zzc" + n + " <- zzs" + n + "; zzsimrt.EndBlocking()"})
						rep.ChanBrackets++
					case isSend:
						bracketed = append(bracketed, [2]token.Pos{s.Pos(), s.End()})
						edits = append(edits, edit{off: off(s.Pos()), text: "zzsimrt.BeginBlocking(); "})
						edits = append(edits, edit{off: off(s.End()), text: "; zzsimrt.EndBlocking()"})
						rep.ChanBrackets++
					default:
						// x := <-f() and the like: the receives are hoisted by the pass below, operands first
					}
				case *ast.SelectStmt:
					edits = append(edits, edit{off: off(s.Pos()), text: "zzsimrt.BeginBlocking(); "})
					for _, cl := range x.Body.List {
						if cc, ok := cl.(*ast.CommClause); ok {
							edits = append(edits, edit{off: off(cc.Colon) + 1, text: " zzsimrt.EndBlocking();"})
						}
					}
					rep.ChanBrackets++
				}
				walk(s)
			}
		}
		walk = func(n ast.Node) {
			ast.Inspect(n, func(c ast.Node) bool {
				switch x := c.(type) {
				case *ast.BlockStmt:
					visitBlock(x.List, "")
					return false
				case *ast.CaseClause:
					for _, e := range x.List {
						walk(e)
					}
					visitBlock(x.Body, "")
					return false
				case *ast.CommClause:
					rep.Unmodelled = append(rep.Unmodelled, fmt.Sprintf("%s:%d select clause", name, fset.Position(x.Pos()).Line))
					visitBlock(x.Body, "")
					return false
				case *ast.SwitchStmt:
					if x.Init != nil {
						walk(x.Init)
					}
					if x.Tag != nil {
						walk(x.Tag)
					}
					for _, cl := range x.Body.List {
						walk2(cl, walk, visitBlock)
					}
					return false
				case *ast.TypeSwitchStmt:
					if x.Init != nil {
						walk(x.Init)
					}
					walk(x.Assign)
					for _, cl := range x.Body.List {
						walk2(cl, walk, visitBlock)
					}
					return false
				case *ast.SelectStmt:
					rep.Unmodelled = append(rep.Unmodelled, fmt.Sprintf("%s:%d select statement (channel operations are not scheduled)", name, fset.Position(x.Pos()).Line))
					for _, cl := range x.Body.List {
						walk2(cl, walk, visitBlock)
					}
					return false
				case *ast.ForStmt:
					if x.Init != nil {
						walk(x.Init)
					}
					if x.Cond != nil {
						walk(x.Cond)
					}
					if x.Post != nil {
						walk(x.Post)
					}
					visitBlock(x.Body.List, "loop-body")
					return false
				case *ast.RangeStmt:
					walk(x.X)
					visitBlock(x.Body.List, "loop-body")
					return false
				case *ast.FuncLit:
					// is it the argument of a .Do( call? the parent check is approximated by position bookkeeping below
					visitBlock(x.Body.List, "")
					return false
				case *ast.CallExpr:
					if sel, ok := x.Fun.(*ast.SelectorExpr); ok && sel.Sel.Name == "Do" && len(x.Args) == 1 {
						if fl, ok := x.Args[0].(*ast.FuncLit); ok {
							walk(x.Fun)
							inOnce++
							visitBlock(fl.Body.List, "")
							inOnce--
							return false
						}
					}
					if sel, ok := x.Fun.(*ast.SelectorExpr); ok {
						if id, ok := sel.X.(*ast.Ident); ok && id.Name == "time" && (sel.Sel.Name == "Sleep" || sel.Sel.Name == "After" || sel.Sel.Name == "NewTimer" || sel.Sel.Name == "Tick") {
							rep.Unmodelled = append(rep.Unmodelled, fmt.Sprintf("%s:%d time.%s", name, fset.Position(x.Pos()).Line, sel.Sel.Name))
						}
					}
				case *ast.GoStmt:
					rep.Unmodelled = append(rep.Unmodelled, fmt.Sprintf("%s:%d go statement", name, fset.Position(x.Pos()).Line))
				case *ast.SendStmt:
					rep.Unmodelled = append(rep.Unmodelled, fmt.Sprintf("%s:%d channel send", name, fset.Position(x.Pos()).Line))
				case *ast.UnaryExpr:
					if x.Op == token.ARROW {
						rep.Unmodelled = append(rep.Unmodelled, fmt.Sprintf("%s:%d channel receive", name, fset.Position(x.Pos()).Line))
					}
				}
				return true
			})
		}
		for _, d := range f.Decls {
			switch x := d.(type) {
			case *ast.FuncDecl:
				if x.Body == nil {
					continue
				}
				curFunc = x.Name.Name
				if x.Recv != nil && len(x.Recv.List) == 1 {
					curFunc = typeName(x.Recv.List[0].Type) + "." + curFunc
				}
				visitBlock(x.Body.List, "")
			case *ast.GenDecl:
				curFunc = "(package-level initialiser)"
				walk(x)
			}
		}
		// A receive that is part of a larger statement (return <-done, if v, ok := <-c; ok, switch <-c, f(g(<-c)) in
		// a return) would wait while its task holds the token. It is hoisted in front of the block-level statement
		// that contains it - "zzsimrt.BeginBlocking(); zzvN := <-c; zzsimrt.EndBlocking();" - and replaced by zzvN,
		// provided the statement evaluates it exactly once and unconditionally (not in a loop condition, a case
		// list, an else-if or the right side of && / ||: those are reported and left alone). Operands the
		// statement evaluates before the receive are then evaluated after it - the one liberty taken.
		var stack []ast.Node
		hoisted := 0
		ast.Inspect(f, func(c ast.Node) bool {
			if c == nil {
				stack = stack[:len(stack)-1]
				return true
			}
			stack = append(stack, c)
			if cc, ok := c.(*ast.CommClause); ok && cc.Comm != nil {
				bracketed = append(bracketed, [2]token.Pos{cc.Comm.Pos(), cc.Comm.End()})
			}
			u, ok := c.(*ast.UnaryExpr)
			if !ok || u.Op != token.ARROW {
				return true
			}
			for _, r := range bracketed {
				if u.Pos() >= r[0] && u.End() <= r[1] {
					return true
				}
			}
			si := -1
			for i := len(stack) - 2; i >= 0; i-- {
				if st, ok := stack[i].(ast.Stmt); ok && blockStmt[st] {
					si = i
					break
				}
				if _, ok := stack[i].(*ast.FuncLit); ok {
					break
				}
			}
			safe := si >= 0 && !hasChanOp(u.X) && !hasFuncLit(u.X)
			if safe {
				// the operand may name a variable that the statement's own init clause declares: then it cannot move in front of it
				var init ast.Stmt
				switch st := stack[si].(type) {
				case *ast.IfStmt:
					init = st.Init
				case *ast.SwitchStmt:
					init = st.Init
				case *ast.TypeSwitchStmt:
					init = st.Init
				case *ast.ForStmt:
					init = st.Init
				}
				if init != nil && !(u.Pos() >= init.Pos() && u.End() <= init.End()) {
					safe = false
				}
			}
			for i := si; safe && i < len(stack)-1; i++ {
				child := stack[i+1]
				switch par := stack[i].(type) {
				case *ast.BinaryExpr:
					if (par.Op == token.LAND || par.Op == token.LOR) && child == ast.Node(par.Y) {
						safe = false
					}
				case *ast.ForStmt:
					if (par.Cond != nil && child == ast.Node(par.Cond)) || (par.Post != nil && child == ast.Node(par.Post)) {
						safe = false
					}
				case *ast.IfStmt:
					if par.Else != nil && child == ast.Node(par.Else) {
						safe = false
					}
				case *ast.CaseClause:
					for _, e := range par.List {
						if child == ast.Node(e) {
							safe = false
						}
					}
				}
			}
			if !safe || !Hoist {
				rep.Unmodelled = append(rep.Unmodelled, fmt.Sprintf("%s:%d receive evaluated conditionally inside a larger statement (it may wait while its task holds the token)", name, fset.Position(u.Pos()).Line))
				return true
			}
			hoisted++
			v := "zzv" + strconv.Itoa(off(u.Pos()))
			x := string(src[off(u.X.Pos()):off(u.X.End())])
			lhs, repl := v, v
			switch par := stack[len(stack)-2].(type) {
			case *ast.AssignStmt:
				if len(par.Lhs) == 2 && len(par.Rhs) == 1 && par.Rhs[0] == ast.Expr(u) {
					lhs, repl = v+", "+v+"ok", v+", "+v+"ok"
				}
			case *ast.ValueSpec:
				if len(par.Names) == 2 && len(par.Values) == 1 && par.Values[0] == ast.Expr(u) {
					lhs, repl = v+", "+v+"ok", v+", "+v+"ok"
				}
			}
			st := stack[si].(ast.Stmt)
			if es, ok := stack[len(stack)-2].(*ast.ExprStmt); ok && es.X == ast.Expr(u) {
				repl = "_ = " + v // a statement that is nothing but the receive
			}
			// the operand is evaluated first, with the token (it may be a call that locks, builds or yields)
			edits = append(edits,
				edit{off: off(st.Pos()), text: "zzc" + v[3:] + " := " + x + "; zzsimrt.BeginBlocking(); " + lhs + " := <-zzc" + v[3:] + "; zzsimrt.EndBlocking(); "},
				edit{off: off(u.Pos()), text: repl, del: off(u.End()) - off(u.Pos())})
			rep.ChanBrackets++
			return true
		})
		if len(edits) == 0 && !contains(rep.SyncFiles, name) {
			continue
		}
		if len(edits) > 0 {
			// import on the package-clause line keeps every line number unchanged
			edits = append(edits, edit{off: off(f.Name.End()), text: `; import zzsimrt "` + rtPath + `"`})
		}
		if err := os.WriteFile(path, apply(src, edits), 0644); err != nil {
			return nil, err
		}
	}
	if err := writeRuntime(dir, rtPath); err != nil {
		return nil, err
	}
	return rep, nil
}

func walk2(cl ast.Stmt, walk func(ast.Node), visitBlock func([]ast.Stmt, string)) {
	switch c := cl.(type) {
	case *ast.CaseClause:
		for _, e := range c.List {
			walk(e)
		}
		visitBlock(c.Body, "")
	case *ast.CommClause:
		visitBlock(c.Body, "")
	}
}

func typeName(e ast.Expr) string {
	switch x := e.(type) {
	case *ast.Ident:
		return x.Name
	case *ast.StarExpr:
		return typeName(x.X)
	case *ast.IndexExpr:
		return typeName(x.X)
	}
	return "?"
}

func contains(l []string, s string) bool {
	for _, x := range l {
		if x == s {
			return true
		}
	}
	return false
}

// writeRuntime generates zzsimrt and zzsimrt/simsync inside the scratch module.
func writeRuntime(dir, rtPath string) error {
	files := map[string]string{
		"tmpl/zzsimrt.go.txt":        "zzsimrt/zzsimrt.go",
		"tmpl/sched.go.txt":          "zzsimrt/sched.go",
		"tmpl/keys.go.txt":           "zzsimrt/keys.go",
		"tmpl/simsync.go.txt":        "zzsimrt/simsync/simsync.go",
		"tmpl/simsync121.go.txt":     "zzsimrt/simsync/simsync121.go",
		"tmpl/simsync_race.go.txt":   "zzsimrt/simsync/race.go",
		"tmpl/simsync_norace.go.txt": "zzsimrt/simsync/norace.go",
	}
	for src, dst := range files {
		b, err := tmpl.ReadFile(src)
		if err != nil {
			return err
		}
		s := strings.ReplaceAll(string(b), "ZZSIMRT_PATH", rtPath)
		p := filepath.Join(dir, dst)
		os.MkdirAll(filepath.Dir(p), 0755)
		if err := os.WriteFile(p, []byte(s), 0644); err != nil {
			return err
		}
	}
	return nil
}
