package instr

import (
	"os"
	"os/exec"
	"path/filepath"
	"runtime"
	"strings"
	"testing"
)

func TestLibraryInstrumentation(t *testing.T) {
	dir := t.TempDir()
	os.WriteFile(filepath.Join(dir, "go.mod"), []byte("module example.com/x\n\ngo 1.11\n"), 0644)
	src := `// Package x.
package x

import "sync"

var once sync.Once
var m map[string]int

//go:generate true
func get(k string) int {
	once.Do(func() {
		m = map[string]int{}
		for i, s := range []string{"a", "b"} {
			m[s] = i
		}
	})
	switch k {
	case "a":
		return m[k]
	default:
	}
	return -1
}
`
	os.WriteFile(filepath.Join(dir, "x.go"), []byte(src), 0644)
	os.WriteFile(filepath.Join(dir, "x_test.go"), []byte("package x\n"), 0644)
	rep, err := Library(dir)
	if err != nil {
		t.Fatal(err)
	}
	out, _ := os.ReadFile(filepath.Join(dir, "x.go"))
	s := string(out)
	if len(rep.Sites) != 7 || strings.Count(s, "zzsimrt.Yield(") != 7 {
		t.Fatalf("%d sites\n%s", len(rep.Sites), s)
	}
	if !strings.Contains(s, `"example.com/x/zzsimrt/simsync"`) || strings.Contains(s, `import "sync"`) {
		t.Fatal("sync import not redirected")
	}
	if strings.Count(s, "\n") != strings.Count(src, "\n") {
		t.Fatal("line count changed")
	}
	tags := map[string]int{}
	for _, st := range rep.Sites {
		tags[st.Tag]++
	}
	if tags["after-once-do"] != 1 || tags["in-once-func"] != 2 || tags["loop-body"] != 1 {
		t.Fatal(tags)
	}
	if t2, _ := os.ReadFile(filepath.Join(dir, "x_test.go")); string(t2) != "package x\n" {
		t.Fatal("test file touched")
	}
	for _, f := range []string{"zzsimrt/zzsimrt.go", "zzsimrt/sched.go", "zzsimrt/keys.go", "zzsimrt/simsync/simsync.go", "zzsimrt/simsync/race.go", "zzsimrt/simsync/norace.go"} {
		if _, err := os.Stat(filepath.Join(dir, f)); err != nil {
			t.Fatal(err)
		}
	}
}

func TestToolRangeRewrite(t *testing.T) {
	dir := t.TempDir()
	os.MkdirAll(filepath.Join(dir, "cmd"), 0755)
	os.WriteFile(filepath.Join(dir, "go.mod"), []byte("module example.com/x\n\ngo 1.11\n"), 0644)
	os.WriteFile(filepath.Join(dir, "cmd", "main.go"), []byte(`package main

var langs = map[string]string{"a": "A"}
var nums = map[int]int{}

func main() {
	for p, n := range langs {
		println(p, n)
	}
	for k := range nums {
		println(k)
	}
	for _, s := range []string{"x"} {
		println(s)
	}
}
`), 0644)
	rep, err := Tool(dir, "cmd")
	if err != nil {
		t.Fatal(err)
	}
	out, _ := os.ReadFile(filepath.Join(dir, "cmd", "main.go"))
	if rep.MapRanges != 1 || rep.OtherRanges != 2 || !strings.Contains(string(out), "for _, p := range zzsimrt.Keys(langs) { n := langs[p];") {
		t.Fatalf("%+v\n%s", rep, out)
	}
}

func TestEnvNames(t *testing.T) {
	dir := t.TempDir()
	os.WriteFile(filepath.Join(dir, "a.go"), []byte(`package x

import "os"

const devVar = "X_DEVICE"

func f(n string) {
	os.Getenv("X_FLAG")
	os.LookupEnv(devVar)
	os.Getenv(n)
}
`), 0644)
	names, opaque := EnvNames(dir)
	if len(names) != 2 || names[0] != "X_DEVICE" || names[1] != "X_FLAG" || len(opaque) != 1 {
		t.Fatal(names, opaque)
	}
	os.WriteFile(filepath.Join(dir, "b.go"), []byte(`package x

import "os"

func g() (v string) {
	for _, n := range []string{"LC_ALL", "LANG", "not a name"} {
		v = os.Getenv(n)
	}
	return
}
`), 0644)
	names, _ = EnvNames(dir)
	if strings.Join(names, ",") != "LANG,LC_ALL,X_DEVICE,X_FLAG" {
		t.Fatal(names)
	}
}

func TestLibraryCoversSubPackagesButNotCommands(t *testing.T) {
	dir := t.TempDir()
	w := func(rel, src string) {
		os.MkdirAll(filepath.Dir(filepath.Join(dir, rel)), 0755)
		os.WriteFile(filepath.Join(dir, rel), []byte(src), 0644)
	}
	w("go.mod", "module example.com/x\n\ngo 1.11\n")
	w("a.go", "package x\n\nfunc A() int {\n\treturn 1\n}\n")
	w("internal/idx/idx.go", "package idx\n\nimport \"sync\"\n\nvar once sync.Once\n\nfunc B() {\n\tonce.Do(func() {\n\t\tprintln(1)\n\t})\n}\n")
	w("cmd/tool/main.go", "package main\n\nfunc main() {\n\tprintln(2)\n}\n")
	w("testdata/t.go", "package broken (\n")
	rep, err := Library(dir)
	if err != nil {
		t.Fatal(err)
	}
	sub, _ := os.ReadFile(filepath.Join(dir, "internal/idx/idx.go"))
	if !strings.Contains(string(sub), "zzsimrt.Yield(") || !strings.Contains(string(sub), `"example.com/x/zzsimrt/simsync"`) {
		t.Fatalf("sub-package not instrumented:\n%s", sub)
	}
	cmd, _ := os.ReadFile(filepath.Join(dir, "cmd/tool/main.go"))
	if strings.Contains(string(cmd), "zzsimrt") {
		t.Fatal("command instrumented")
	}
	if len(rep.SyncFiles) != 1 || rep.SyncFiles[0] != "internal/idx/idx.go" {
		t.Fatal(rep.SyncFiles)
	}
}

func TestClockSeamCompilesAndJumps(t *testing.T) {
	goroot := runtime.GOROOT()
	if out, err := exec.Command("go", "env", "GOROOT").Output(); err == nil && len(out) > 1 {
		goroot = strings.TrimSpace(string(out))
	}
	dir := t.TempDir()
	w := func(rel, src string) {
		os.MkdirAll(filepath.Dir(filepath.Join(dir, rel)), 0755)
		os.WriteFile(filepath.Join(dir, rel), []byte(src), 0644)
	}
	w("go.mod", "module example.com/x\n\ngo 1.11\n")
	w("a.go", "package x\n\nimport (\n\t\"time\"\n)\n\nvar start = time.Now()\n\nfunc Idle() time.Duration { return time.Since(start) }\n\nfunc D() time.Duration { return 3 * time.Second }\n\nvar _ = time.RFC3339\nvar _ time.Month = time.January\nvar T *time.Timer\n\nfunc After1h() <-chan time.Time { return time.After(time.Hour) }\n\nfunc Stopped1h() <-chan time.Time { t := time.NewTimer(time.Hour); t.Stop(); return t.C }\n\nfunc Janitor() <-chan time.Time { return time.NewTicker(10 * time.Minute).C }\n\nfunc Sleep1h() { time.Sleep(time.Hour) }\n\nfunc ShortTimer() time.Duration { s := time.Now(); <-time.After(20 * time.Millisecond); return time.Since(s) }\n")
	w("c.go", "package x\n\nimport (\n\t\"context\"\n\t\"time\"\n)\n\n// Budget is what is left of a two-second budget right after it was granted.\nfunc Budget() (time.Duration, error) {\n\tctx, cancel := context.WithTimeout(context.Background(), 2*time.Second)\n\tdefer cancel()\n\tdl, _ := ctx.Deadline()\n\treturn time.Until(dl), ctx.Err()\n}\n\nfunc Expired() error {\n\tctx, cancel := context.WithDeadline(context.Background(), time.Now().Add(30*time.Millisecond))\n\tdefer cancel()\n\t<-ctx.Done()\n\treturn ctx.Err()\n}\n")
	w("internal/y/y.go", "package y\n\nimport t \"time\"\n\nfunc Later(x t.Time) bool { return t.Now().After(x) }\n")
	w("cmd/tool/main.go", "package main\n\nimport \"time\"\n\nfunc main() { println(time.Now().Unix()) }\n")
	w("x_test.go", `package x

import (
	"testing"
	"time"

	"example.com/x/zzclock"
)

func TestJump(t *testing.T) {
	a := Idle()
	zzclock.Jump(3600 * 1000)
	if b := Idle(); b-a < 3599*1e9 || b-a > 3700*1e9 {
		t.Fatal(a, b)
	}
}

func TestContextAfterJump(t *testing.T) {
	zzclock.Jump(7200 * 1000)
	if d, err := Budget(); err != nil || d < time.Second || d > 2*time.Second {
		t.Fatal("budget after a jump:", d, err)
	}
	s := time.Now()
	if err := Expired(); err == nil || time.Since(s) > time.Second {
		t.Fatal("deadline 30 ms ahead on the simulated clock:", err, time.Since(s))
	}
}

func TestTimers(t *testing.T) {
	hour, stopped := After1h(), Stopped1h()
	ticks := Janitor()
	slept := make(chan bool, 1)
	go func() { Sleep1h(); slept <- true }()
	time.Sleep(20 * time.Millisecond)
	select {
	case <-hour:
		t.Fatal("fired early")
	default:
	}
	if n := zzclock.Jump(3600*1000 + 1); n < 3 {
		t.Fatal("timers fired by the jump:", n)
	}
	select {
	case <-hour:
	case <-time.After(2 * time.Second):
		t.Fatal("After(1h) did not fire after a jump of 1 h")
	}
	select {
	case <-slept:
	case <-time.After(2 * time.Second):
		t.Fatal("Sleep(1h) did not return after a jump of 1 h")
	}
	select {
	case <-ticks:
	case <-time.After(2 * time.Second):
		t.Fatal("ticker did not tick")
	}
	select {
	case <-stopped:
		t.Fatal("stopped timer fired")
	case <-time.After(30 * time.Millisecond):
	}
	if d := ShortTimer(); d < 15*time.Millisecond || d > time.Second {
		t.Fatal("a 20 ms timer without jumps took", d)
	}
}
`)
	rep, err := Clock(dir, goroot)
	if err != nil {
		t.Fatal(err)
	}
	if strings.Join(rep.Rewritten, ",") != "a.go,c.go,internal/y/y.go" {
		t.Fatal(rep.Rewritten)
	}
	cmd := exec.Command("go", "test", "-race", "./...")
	cmd.Dir = dir
	cmd.Env = append(os.Environ(), "GOFLAGS=-mod=mod", "GOPROXY=off", "GOSUMDB=off", "GOTOOLCHAIN=local")
	if out, err := cmd.CombinedOutput(); err != nil {
		t.Fatalf("%v\n%s", err, out)
	}
	main, _ := os.ReadFile(filepath.Join(dir, "cmd/tool/main.go"))
	if strings.Contains(string(main), "simtime") {
		t.Fatal("command rewritten")
	}
	if err := rep.Undo(); err != nil {
		t.Fatal(err)
	}
	a, _ := os.ReadFile(filepath.Join(dir, "a.go"))
	if strings.Contains(string(a), "simtime") {
		t.Fatal("undo failed")
	}
}

func TestEmbeddedReceivesAreHoisted(t *testing.T) {
	dir := t.TempDir()
	w := func(rel, src string) {
		os.MkdirAll(filepath.Dir(filepath.Join(dir, rel)), 0755)
		os.WriteFile(filepath.Join(dir, rel), []byte(src), 0644)
	}
	w("go.mod", "module example.com/x\n\ngo 1.11\n")
	w("a.go", `package x

type req struct{ done chan error }

func Wait(r *req) error {
	return <-r.done
}

func Both(c chan int, d <-chan string, b chan bool) (int, bool, string) {
	if v, ok := <-c; ok {
		return v, true, <-d
	} else if <-b {
		return 0, false, ""
	}
	for i := 0; i < 1 && <-b; i++ {
	}
	x := <-c
	w := <-mk()
	mk() <- g(w)
	<-mk()
	select {
	case y := <-c:
		return y, false, ""
	default:
	}
	switch <-c {
	case 7:
	}
	return x + f(<-c), false, ""
}

func f(i int) int { return i }

var shared = make(chan int, 8)

func mk() chan int { shared <- 5; return shared }

func g(i int) int { return i + 1 }

// Shared reports whether the loop variable is one variable for the whole loop (the go 1.11 semantics of this module).
func Shared() bool {
	var ps []*int
	for _, v := range []int{1, 2} {
		ps = append(ps, &v)
	}
	return ps[0] == ps[1]
}
`)
	w("x_test.go", `package x

import "testing"

func TestWait(t *testing.T) {
	r := &req{done: make(chan error, 1)}
	r.done <- nil
	if Wait(r) != nil {
		t.Fatal()
	}
	c, d, b := make(chan int, 4), make(chan string, 2), make(chan bool, 2)
	c <- 1
	d <- "a"
	v, ok, s := Both(c, d, b)
	if v != 1 || !ok || s != "a" {
		t.Fatal(v, ok, s)
	}
	if !Shared() {
		t.Fatal("instrumentation changed the language version of the file")
	}
}
`)
	rep, err := Library(dir)
	if err != nil {
		t.Fatal(err)
	}
	a, _ := os.ReadFile(filepath.Join(dir, "a.go"))
	for _, want := range []string{":= r.done; zzsimrt.BeginBlocking(); zzv", "; zzsimrt.EndBlocking(); return zzv", "ok := <-zzc", "if v, ok := zzv", "} else if <-b {", "i < 1 && <-b;", "case y := <-c:", "switch zzv", "f(zzv", "zzsimrt.BeginBlocking(); zzc", "_ = zzv", "w := zzv", ":= mk(), g(w); zzsimrt.BeginBlocking(); zzc"} {
		if !strings.Contains(string(a), want) {
			t.Fatalf("missing %q in\n%s", want, a)
		}
	}
	if strings.HasPrefix(string(a), "//go:build") || len(rep.Unmodelled) < 2 {
		t.Fatalf("%v\n%s", rep.Unmodelled, a)
	}
	cmd := exec.Command("go", "test", "-race", "./...")
	cmd.Dir = dir
	cmd.Env = append(os.Environ(), "GOFLAGS=-mod=mod", "GOPROXY=off", "GOSUMDB=off", "GOTOOLCHAIN=local")
	if out, err := cmd.CombinedOutput(); err != nil {
		t.Fatalf("%v\n%s\n%s", err, out, a)
	}
}
