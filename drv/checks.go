package drv

import (
	"encoding/json"
	"fmt"
	"os"
)

var Checks = map[string]func(*Env) (int, error){
	"C06": CheckC06,
	"C07": CheckC07,
	"C09": CheckC09,
	"C12": CheckC12,
	"C13": CheckC13,
	"C17": CheckC17,
}

// Replay re-executes a replay file against the current working tree.
func Replay(e *Env, path string) (int, error) {
	b, err := os.ReadFile(path)
	if err != nil {
		return 2, Troublef("%v", err)
	}
	var rf ReplayFile
	if err := json.Unmarshal(b, &rf); err != nil {
		return 2, Troublef("%s: %v", path, err)
	}
	if rf.Engine != "schedsim" && rf.Engine != "toolsim" {
		if err := e.CopyRepo(); err != nil {
			return 2, err
		}
	}
	var eng Engine
	switch rf.Engine {
	case "srcsim-c06":
		bin, err := e.BuildHarness("./harness/srcsim", "srcsim")
		if err != nil {
			return 2, err
		}
		coldBin, err := e.BuildHarness("./harness/coldsim", "coldsim")
		if err != nil {
			return 2, err
		}
		eng = &c06Engine{e, bin, coldBin}
	case "srcsim-c09":
		bin, err := e.BuildHarness("./harness/srcsim", "srcsim")
		if err != nil {
			return 2, err
		}
		eng = &c09Engine{e, bin}
	case "histsim":
		bin, err := e.BuildHarness("./harness/srcsim", "srcsim")
		if err != nil {
			return 2, err
		}
		eng = &c13Engine{e, bin, NewSolo(e, bin)}
	case "coldsim":
		src, err := e.BuildHarness("./harness/srcsim", "srcsim")
		if err != nil {
			return 2, err
		}
		cold, err := e.BuildHarness("./harness/coldsim", "coldsim")
		if err != nil {
			return 2, err
		}
		eng = &c07Engine{e: e, src: src, cold: cold}
	case "schedsim":
		g, _, err := buildC12(e)
		if err != nil {
			return 2, err
		}
		eng = g
	case "toolsim":
		g, _, err := buildC17(e)
		if err != nil {
			return 2, err
		}
		eng = g
	default:
		return 2, Troublef("unknown engine %q in %s", rf.Engine, path)
	}
	var pl interface{}
	if err := json.Unmarshal(rf.Plan, &pl); err != nil {
		return 2, Troublef("%v", err)
	}
	v, err := eng.Reproduce(pl)
	if err != nil {
		return 2, err
	}
	if v == nil {
		fmt.Printf("NOT-REPRODUCED property=%s replay=%s (the plan runs clean on this tree)\n", rf.Property, path)
		return 0, nil
	}
	fmt.Printf("VIOLATION property=%s replay=%s\n  class=%s key=%s\n  %s\n", rf.Property, path, v.Class, v.Key, v.Detail)
	return 1, nil
}
