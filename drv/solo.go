package drv

import (
	"sync"
	"time"

	"a0verif/plan"
)

// histPlan / histResult mirror the worker's JSON.
type histPlan struct {
	Source   string    `json:"source"`
	Dev      *plan.Dev `json:"dev,omitempty"`
	Ops      []plan.Op `json:"ops"`
	Identity bool      `json:"identity,omitempty"`
	Hold     bool      `json:"hold,omitempty"`
	Env      []string  `json:"env,omitempty"` // additions to the process environment (read by the driver, not by the worker)
}
type histResult struct {
	ForcedGC   int              `json:"forced_gc,omitempty"`
	Outcomes   []plan.Outcome   `json:"outcomes"`
	Delivered  []string         `json:"delivered,omitempty"`
	Reads      [][]plan.ReadRec `json:"reads,omitempty"`
	Stream     string           `json:"stream,omitempty"`
	IdChecks   int              `json:"id_checks"`
	IdBad      []int            `json:"id_bad,omitempty"`
	IdInfo     string           `json:"id_info,omitempty"`
	Altered    []string         `json:"altered,omitempty"`
	Scribbles  int              `json:"scribbles"`
	Reinspects int              `json:"reinspects"`
	Stopped    int              `json:"stopped_after_op,omitempty"`
}

// Solo is the history-free oracle: the outcome of one call executed alone in
// a fresh process of the same build (plain, uninstrumented).
type Solo struct {
	e     *Env
	bin   string
	mu    sync.Mutex
	cache map[string]plan.Outcome
	Procs int
	Crash map[string]string
}

func NewSolo(e *Env, srcsim string) *Solo {
	return &Solo{e: e, bin: srcsim, cache: map[string]plan.Outcome{}, Crash: map[string]string{}}
}

func soloOp(op plan.Op) plan.Op {
	op.Scribble = false
	op.Cap = 0
	op.J = 0
	op.GC = false
	return op
}

// One returns the solo outcome of op (cached per distinct call).
func (s *Solo) One(op *plan.Op) (plan.Outcome, error) {
	k := op.Key()
	s.mu.Lock()
	if o, ok := s.cache[k]; ok {
		s.mu.Unlock()
		return o, nil
	}
	s.mu.Unlock()
	var res histResult
	p, err := s.e.RunJSON(s.bin, "hist", histPlan{Source: "hook", Ops: []plan.Op{soloOp(*op)}}, &res, 60*time.Second)
	if err != nil {
		return plan.Outcome{}, err
	}
	var o plan.Outcome
	switch {
	case p.TimedOut:
		o = plan.Outcome{Panic: "HANG: the call alone did not return within 60 s"}
	case p.Exit == 3:
		return o, Troublef("solo worker: %s", tail(p.Stderr, 5))
	case p.Exit != 0:
		o = plan.Outcome{Panic: "CRASH: " + firstLine(p.Stderr)}
	default:
		if len(res.Outcomes) != 1 {
			return o, Troublef("solo worker returned %d outcomes", len(res.Outcomes))
		}
		o = res.Outcomes[0]
	}
	s.mu.Lock()
	s.cache[k] = o
	s.Procs++
	s.mu.Unlock()
	return o, nil
}

// All solo-oracles a pool in parallel.
func (s *Solo) All(pool []plan.Op) error {
	var first error
	var mu sync.Mutex
	s.e.Parallel(len(pool), func(i int) {
		if _, err := s.One(&pool[i]); err != nil {
			mu.Lock()
			if first == nil {
				first = err
			}
			mu.Unlock()
		}
	})
	return first
}
