package drv

import "time"

// DDMin removes elements of a list of n items while test(keep) stays true,
// where keep is the sorted list of retained indices. Budget bounds candidates
// and wall time. It returns the retained indices.
func DDMin(n int, test func(keep []int) bool, maxCand int, maxWall time.Duration) []int {
	keep := make([]int, n)
	for i := range keep {
		keep[i] = i
	}
	t0 := time.Now()
	cand := 0
	ok := func(k []int) bool {
		if cand >= maxCand || time.Since(t0) > maxWall {
			return false
		}
		cand++
		return test(k)
	}
	chunk := (len(keep) + 1) / 2
	for chunk >= 1 && len(keep) > 0 {
		removed := false
		for start := 0; start < len(keep); {
			end := start + chunk
			if end > len(keep) {
				end = len(keep)
			}
			c := append(append([]int(nil), keep[:start]...), keep[end:]...)
			if ok(c) {
				keep = c
				removed = true
			} else {
				start = end
			}
			if cand >= maxCand || time.Since(t0) > maxWall {
				return keep
			}
		}
		if chunk == 1 && !removed {
			break
		}
		if !removed || chunk > 1 {
			chunk /= 2
			if chunk == 0 && removed {
				chunk = 1
			}
		}
	}
	return keep
}
