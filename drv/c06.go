package drv

import (
	"encoding/json"
	"fmt"
	"sort"
	"strings"
	"sync"
	"time"

	"a0verif/instr"
	"a0verif/plan"
)

// mirror of the worker's JSON (the driver does not link the code under test)
type c06Case struct {
	N        int      `json:"n"`
	Lang     int      `json:"lang"`
	Dev      plan.Dev `json:"dev"`
	Family   string   `json:"family,omitempty"`
	PreMs    int64    `json:"pre_ms,omitempty"`
	PreCalls int      `json:"pre_calls,omitempty"`
}
type c06Job struct {
	Kind  string    `json:"kind"`
	N     int       `json:"n,omitempty"`
	Lo    uint64    `json:"lo,omitempty"`
	Hi    uint64    `json:"hi,omitempty"`
	Count int       `json:"count,omitempty"`
	Seed  uint64    `json:"seed,omitempty"`
	Cases []c06Case `json:"cases,omitempty"`
	Keep  int       `json:"keep,omitempty"`
	cold  bool
	part  bool // its distinct count is disjoint from every other job's by construction
	env   []string
}
type c06Viol struct {
	env    []string
	cold   bool
	Case   c06Case        `json:"case"`
	Prev   *c06Case       `json:"prev,omitempty"`
	Class  string         `json:"class"`
	Detail string         `json:"detail"`
	Out    plan.Outcome   `json:"outcome"`
	Log    []plan.ReadRec `json:"reads"`
}
type c06Result struct {
	Cases      int            `json:"cases"`
	NonTrivial int            `json:"nontrivial"`
	Distinct   int            `json:"distinct"`
	Fired      map[string]int `json:"fired"`
	Probes     map[string]int `json:"probes"`
	Relaxed    map[string]int `json:"relaxed"`
	ByFamily   map[string]int `json:"by_family"`
	ByLang     map[string]int `json:"by_lang"`
	ByN        map[string]int `json:"by_n"`
	Reads      int            `json:"reads"`
	MaxReads   int            `json:"max_reads"`
	Viol       []c06Viol      `json:"violations,omitempty"`
	ViolCount  int            `json:"violation_count"`
	Samples    []c06Case      `json:"samples,omitempty"`
	SampleOut  []string       `json:"sample_outcomes,omitempty"`
	Verdicts   []c06Verdict   `json:"verdicts,omitempty"`
	Digest     uint64         `json:"digest"`
}

type c06Verdict struct {
	Class  string         `json:"class,omitempty"`
	Detail string         `json:"detail,omitempty"`
	Out    plan.Outcome   `json:"outcome"`
	Log    []plan.ReadRec `json:"reads"`
}

// c06Plan is a replayable C06 plan: the cases run in this order in one fresh
// process; the verdict is that of the LAST case (earlier ones only set the stage).
type c06Plan struct {
	Cases []c06Case `json:"cases"`
	Env   []string  `json:"env,omitempty"`  // additions to the process environment
	Cold  bool      `json:"cold,omitempty"` // run in the process whose crypto/rand.Reader is the device (no hook)
}

func addMap(dst, src map[string]int) {
	for k, v := range src {
		dst[k] += v
	}
}

type c06Engine struct {
	e    *Env
	bin  string
	cold string // the pre-init binary: plans of the cold families replay there
}

func c06Key(v *c06Viol) string {
	return fmt.Sprintf("%s/n=%d/lang=%d/script=%s", v.Class, v.Case.N, v.Case.Lang, plan.Digest(v.Case.Dev))
}

// runCases executes the cases in one fresh process and returns the verdict on the last one.
func (g *c06Engine) runCases(cs []c06Case, env []string, cold bool) (*c06Viol, error) {
	var res c06Result
	bin := g.bin
	if cold && g.cold != "" {
		bin = g.cold
	}
	p, err := g.e.RunJSON(bin, "c06", c06Job{Kind: "explicit", Cases: cs}, &res, 60*time.Second, env...)
	if err != nil {
		return nil, err
	}
	if p.Exit != 0 || p.TimedOut {
		return nil, Troublef("worker exit %d timeout=%v: %s", p.Exit, p.TimedOut, tail(p.Stderr, 5))
	}
	if len(res.Verdicts) != len(cs) {
		return nil, Troublef("worker returned %d verdicts for %d cases", len(res.Verdicts), len(cs))
	}
	last := res.Verdicts[len(cs)-1]
	if last.Class == "" {
		return nil, nil
	}
	v := &c06Viol{env: env, cold: cold, Case: cs[len(cs)-1], Class: last.Class, Detail: last.Detail, Out: last.Out, Log: last.Log}
	if len(cs) > 1 {
		v.Prev = &cs[len(cs)-2]
	}
	return v, nil
}

func toC06Plan(pl interface{}) (*c06Plan, error) {
	var c c06Plan
	b, err := json.Marshal(pl)
	if err != nil {
		return nil, err
	}
	err = json.Unmarshal(b, &c)
	if err == nil && len(c.Cases) == 0 {
		err = Troublef("C06 plan without cases")
	}
	return &c, err
}

func (g *c06Engine) Reproduce(pl interface{}) (*Violation, error) {
	c, err := toC06Plan(pl)
	if err != nil {
		return nil, err
	}
	v, err := g.runCases(c.Cases, c.Env, c.Cold)
	if err != nil || v == nil {
		return nil, err
	}
	return c06PlanViolation(c.Cases, v), nil
}

func c06PlanViolation(cs []c06Case, v *c06Viol) *Violation {
	stage := ""
	if len(v.env) > 0 {
		stage = " [process environment: " + strings.Join(v.env, " ") + "]"
	}
	if len(cs) > 1 {
		stage += fmt.Sprintf(" (after %d earlier call(s) in the same process, the last one %s)", len(cs)-1, mustJSON(cs[len(cs)-2]))
	}
	return &Violation{Property: "C06", Class: v.Class, Key: c06Key(v), Engine: "srcsim-c06", Plan: c06Plan{Cases: cs, Env: v.env, Cold: v.cold},
		Detail: fmt.Sprintf("NewMnemonic(%d, lang %d)%s: %s; outcome %s err=%s; device reads %s", v.Case.N, v.Case.Lang, stage, v.Detail, v.Out.Out, v.Out.Err, mustJSON(v.Log))}
}

// c06Violation turns a worker-reported violation into a plan: the case alone,
// preceded by the case that ran before it (history may matter).
func c06Violation(v *c06Viol) *Violation {
	cs := []c06Case{v.Case}
	if v.Prev != nil {
		cs = []c06Case{*v.Prev, v.Case}
	}
	return c06PlanViolation(cs, v)
}

func mustJSON(v interface{}) string { b, _ := json.Marshal(v); return string(b) }

func (g *c06Engine) Minimise(v *Violation) *Violation {
	pl, err := toC06Plan(v.Plan)
	if err != nil {
		return v
	}
	cs := pl.Cases
	same := func(t []c06Case) bool {
		got, err := g.runCases(t, pl.Env, pl.Cold)
		return err == nil && got != nil && got.Class == v.Class
	}
	// does the last case fail on its own?
	if len(cs) > 1 && same(cs[len(cs)-1:]) {
		cs = cs[len(cs)-1:]
	}
	shrink := func(idx int) {
		c := cs[idx]
		keep := DDMin(len(c.Dev.Script), func(k []int) bool {
			t := append([]c06Case(nil), cs...)
			t[idx].Dev.Script = nil
			for _, i := range k {
				t[idx].Dev.Script = append(t[idx].Dev.Script, c.Dev.Script[i])
			}
			return same(t)
		}, 150, 30*time.Second)
		if len(keep) < len(c.Dev.Script) {
			n := append([]c06Case(nil), cs...)
			n[idx].Dev.Script = nil
			for _, i := range keep {
				n[idx].Dev.Script = append(n[idx].Dev.Script, c.Dev.Script[i])
			}
			cs = n
		}
		for _, fill := range []string{"counter", "zero"} { // prefer the simplest stream that still fails
			t := append([]c06Case(nil), cs...)
			t[idx].Dev.Hex, t[idx].Dev.Fill, t[idx].Dev.Seed = "", fill, 0
			if same(t) {
				cs = t
				break
			}
		}
	}
	for i := len(cs) - 1; i >= 0; i-- {
		shrink(i)
	}
	got, err := g.runCases(cs, pl.Env, pl.Cold)
	if err != nil || got == nil || got.Class != v.Class {
		return v
	}
	return c06PlanViolation(cs, got)
}

// CheckC06 - fail-closed and exact use of delivered bytes (fault enumeration).
func CheckC06(e *Env) (int, error) {
	if err := e.CopyRepo(); err != nil {
		return 2, err
	}
	src, err := e.BuildHarness("./harness/srcsim", "srcsim")
	if err != nil {
		return 2, err
	}
	cold, err := e.BuildHarness("./harness/coldsim", "coldsim")
	if err != nil {
		return 2, err
	}
	thorough := e.Tier == "thorough"
	var jobs []c06Job
	sd := func(name string, i int) uint64 { return plan.Derive(e.Seed, "C06/"+name, uint64(i)) }
	for i := uint64(0); i < 480; i++ { // (16+20+24+28+32) failure points x 2 panic values x 2 fragmentations, one process each
		jobs = append(jobs, c06Job{Kind: "panics", Lo: i, Hi: i + 1, Seed: sd("panics", 0), part: true})
	}
	for _, k := range []string{"faults", "boundary", "structured", "stalls", "slow"} {
		jobs = append(jobs, c06Job{Kind: k, Seed: sd(k, 0), Keep: 2, part: true})
	}
	// the environment is no property of the source: every variable the tree is seen to read, set in turn to flag-,
	// number- and literal-shaped values, with the failure-point, boundary and two-part-split families
	envNames, envOpaque := instr.EnvNames(e.RepoCopy())
	envVals := append([]string{"1", "true", "0", "2", "8", "16", "64", "4096"}, instr.EnvValueCandidates(e.RepoCopy())...)
	envJobs := 0
	for _, name := range envNames {
		for _, val := range envVals {
			for _, k := range []string{"faults", "boundary", "structured"} {
				jobs = append(jobs, c06Job{Kind: k, Seed: sd("env/"+k, envJobs), env: []string{name + "=" + val}})
			}
			envJobs++
		}
	}
	addComps := func(n int) {
		need := n + n/3
		total := uint64(1) << uint(need-1)
		chunks := uint64(16)
		if total > 1<<20 {
			chunks = 128
		}
		for c := uint64(0); c < chunks; c++ {
			jobs = append(jobs, c06Job{Kind: "comps", N: n, Lo: c * total / chunks, Hi: (c + 1) * total / chunks, Seed: sd("comps", int(c)), Keep: 1, part: true})
		}
	}
	addComps(12)
	seededN := []int{15, 18, 21, 24}
	seededCount := 10000
	comboCount := 20000
	coldRuns := 320
	if thorough {
		addComps(15)
		addComps(18)
		seededN = []int{21, 24}
		seededCount = 10000000
		comboCount = 2000000
		coldRuns = 6000
	}
	for _, n := range seededN {
		// one job per n: the worker de-duplicates within the job
		chunks := 1
		if thorough {
			chunks = 32
		}
		for c := 0; c < chunks; c++ {
			// chunked jobs are NOT disjoint; only the largest chunk's distinct count is used (conservative)
			jobs = append(jobs, c06Job{Kind: "seeded", N: n, Count: seededCount / chunks, Seed: sd(fmt.Sprintf("seeded%d", n), c), Keep: 1, part: chunks == 1})
		}
	}
	jobs = append(jobs, c06Job{Kind: "combo", Count: comboCount, Seed: sd("combo", 0), Keep: 3, part: true})
	// cold starts through the pre-init seam: the same fault families, one process each
	jobs = append(jobs, c06Job{Kind: "faults", Seed: sd("coldfaults", 0), cold: true})
	jobs = append(jobs, c06Job{Kind: "boundary", Seed: sd("coldboundary", 0), cold: true})
	for i := 0; i < coldRuns; i++ {
		jobs = append(jobs, c06Job{Kind: "combo", Count: 1, Seed: sd("cold", i), cold: true})
	}

	tot := c06Result{Fired: map[string]int{}, Probes: map[string]int{}, Relaxed: map[string]int{}, ByFamily: map[string]int{}, ByLang: map[string]int{}, ByN: map[string]int{}}
	var mu sync.Mutex
	var viols []*Violation
	var trouble error
	distinct, coldCases, coldProcs, maxSeededDistinct := 0, 0, 0, map[int]int{}
	seamUnavailable := 0
	postPanicHang, devicePanicKilled := 0, 0
	var samples []interface{}
	var od OrderedDigest
	e.Logf("C06: %d jobs", len(jobs))
	e.Parallel(len(jobs), func(i int) {
		j := jobs[i]
		bin := src
		if j.cold {
			bin = cold
		}
		var r c06Result
		p, err := e.RunJSON(bin, "c06", j, &r, 20*time.Minute, j.env...)
		mu.Lock()
		defer mu.Unlock()
		if err == nil && j.Kind == "panics" && p.DiedOfDevicePanic() {
			devicePanicKilled++ // the device's panic surfaced in a goroutine of the library's own: the process is gone, fail-closed
			return
		}
		if err == nil && j.Kind == "panics" && p.Exit == 6 {
			postPanicHang++ // the call after a source panic never returned (e.g. a lock the panic left held): not judged
			return
		}
		if err == nil && j.cold && p.Exit == 4 {
			seamUnavailable++ // the tree's default source is not crypto/rand.Reader (C07's business): hook-free runs impossible
			return
		}
		if err == nil && (p.Exit != 0 || p.TimedOut) {
			err = Troublef("C06 worker (%s) exit %d timeout=%v: %s", j.Kind, p.Exit, p.TimedOut, tail(p.Stderr, 8))
		}
		if err != nil {
			if trouble == nil {
				trouble = err
			}
			return
		}
		od.Add(i, r.Digest)
		tot.Cases += r.Cases
		tot.Reads += r.Reads
		if r.MaxReads > tot.MaxReads {
			tot.MaxReads = r.MaxReads
		}
		tot.ViolCount += r.ViolCount
		addMap(tot.Fired, r.Fired)
		addMap(tot.Probes, r.Probes)
		addMap(tot.Relaxed, r.Relaxed)
		addMap(tot.ByLang, r.ByLang)
		addMap(tot.ByN, r.ByN)
		if j.cold {
			coldCases += r.Cases
			coldProcs++
			tot.ByFamily["cold:"+j.Kind] += r.Cases
		} else {
			addMap(tot.ByFamily, r.ByFamily)
			if j.part && len(j.env) == 0 {
				distinct += r.Distinct
			} else if r.Distinct > maxSeededDistinct[j.N] {
				maxSeededDistinct[j.N] = r.Distinct
			}
		}
		for k := range r.Viol {
			r.Viol[k].env = j.env
			r.Viol[k].cold = j.cold
			viols = append(viols, c06Violation(&r.Viol[k]))
		}
		if len(samples) < 12 {
			for k := range r.Samples {
				samples = append(samples, map[string]interface{}{"case": r.Samples[k], "outcome": r.SampleOut[k]})
			}
		}
	})
	if trouble != nil {
		return 2, trouble
	}
	for _, d := range maxSeededDistinct {
		distinct += d
	}
	sort.Slice(viols, func(a, b int) bool { return viols[a].Key < viols[b].Key })
	code, reported := e.Report("C06", viols, &c06Engine{e, src, cold})
	zero := []string{}
	for _, p := range []string{"error_at_k0", "error_at_need_minus_1", "error_with_completing_bytes", "hundred_stalls"} {
		if tot.Probes[p] == 0 {
			zero = append(zero, p)
		}
	}
	if len(zero) > 0 {
		fmt.Printf("PROBE-ZERO C06: %s\n", strings.Join(zero, ","))
	}
	cov := map[string]interface{}{
		"evaluations":                 tot.Cases,
		"distinct_nontrivial":         distinct,
		"rule":                        "a case = NewMnemonic(n, lang) against one device script; enumerated families (every failure point k x 10 error kinds (EOF, unexpected EOF, plain, wrapped EOF, closed pipe, Temporary()/Timeout(), EAGAIN, EINTR, an error whose Is() matches every target, the same wrapped) x own-read/with-bytes x 3 fragmentations; a Read that panics (string or error value) at every failure point; error with the buffer-completing bytes; all compositions of need for the listed n; structured splits; stalls at every position) plus seeded compositions and seeded multi-fault scripts. Non-trivial: the device delivered >=1 byte or returned >=1 fault inside the call. Distinct: by digest of (n, sequence of (asked, delivered, error kind)); de-duplicated inside each worker job, jobs of different families/ranges are disjoint by construction, for chunked seeded jobs only the largest chunk per n is counted; cold-start repetitions are not counted.",
		"exhaustive":                  false,
		"exhaustive_parts":            "every (n,k,error kind,own/with-bytes) failure point; all 2^(need-1) compositions for n=12 (quick) and n=12,15,18 (thorough); every stall position",
		"samples":                     samples,
		"runs":                        tot.Cases,
		"worker_processes":            len(jobs),
		"cold_start_processes":        coldProcs,
		"cold_start_cases":            coldCases,
		"cold_start_seam_unavailable": seamUnavailable,
		"calls_after_a_source_panic_that_never_returned_not_judged":  postPanicHang,
		"processes_ended_by_the_device_panic_in_a_library_goroutine": devicePanicKilled,
		"sim_steps_total":                        tot.Reads,
		"sim_time_note":                          "the unchanged tree reads no clock, so simulated time is counted in device reads; a tree that imports \"time\" gets Now/Since/Until from the clock seam, which the simulator moves forward in jumps (reads of the device that take 0.15 s to 1 h of simulated time)",
		"clock_seam_files":                       e.ClockFiles("go"),
		"environment_variables_read_by_the_tree": envNames,
		"environment_reads_with_opaque_names":    envOpaque,
		"environment_settings_swept":             envJobs,
		"faults_fired":                           tot.Fired,
		"probes":                                 tot.Probes,
		"relaxations_applied":                    tot.Relaxed,
		"by_family":                              tot.ByFamily,
		"by_language":                            tot.ByLang,
		"by_word_count":                          tot.ByN,
		"max_reads_in_one_call":                  tot.MaxReads,
		"raw_violations":                         tot.ViolCount,
		"outcome_digest":                         od.String(),
	}
	if err := e.WriteEvidence("C06", "fault_enumeration", cov, []string{
		"reference BIP39 encoder in /verif/ref over frozen word lists pinned by SHA-256 (validated against published vectors)",
		"the verif-tagged VerifSwapSource hook really swaps the variable NewMnemonic reads (cross-checked by the cold-start runs, which use no hook)",
		"crypto/sha256 of the Go standard library",
	}, reported); err != nil {
		return 2, err
	}
	e.Logf("C06: %d cases, %d distinct non-trivial, %d raw violations", tot.Cases, distinct, tot.ViolCount)
	return code, nil
}
