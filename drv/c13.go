package drv

import (
	"strings"

	"encoding/hex"
	"encoding/json"
	"fmt"
	"sort"
	"sync"
	"time"

	"a0verif/instr"
	"a0verif/plan"
	"a0verif/ref"
)

type c13Engine struct {
	e    *Env
	bin  string
	solo *Solo
}

type histVerdict struct {
	Class  string
	Key    string
	Detail string
	OpIdx  int
}

func opBrief(op *plan.Op) string {
	if op.J != 0 {
		c := *op
		c.J = 0
		return fmt.Sprintf("[after %v of simulated idle time] %s", time.Duration(op.J)*time.Millisecond, opBrief(&c))
	}
	switch op.K {
	case "ent":
		return fmt.Sprintf("NewMnemonicByEntropy(%d bytes nil=%v cap+%d, lang %d)", len(op.Ent)/2, op.Nil, op.Cap, op.Lang)
	case "new":
		return fmt.Sprintf("NewMnemonic(%d, lang %d)", op.N, op.Lang)
	case "check":
		return fmt.Sprintf("CheckMnemonic(%.40q.., lang %d)", op.Mnemonic(), op.Lang)
	case "valid":
		return fmt.Sprintf("IsMnemonicValid(%.40q.., lang %d)", op.Mnemonic(), op.Lang)
	case "seed":
		return fmt.Sprintf("MnemonicToSeed(%.30q.., %.12q)", op.Mnemonic(), op.Passphrase())
	case "str":
		return fmt.Sprintf("Language(%d).String()", op.Lang)
	}
	return op.K
}

func histKey(ops []plan.Op, upto int) string {
	keys := make([]string, 0, upto)
	for i := 0; i < upto; i++ {
		keys = append(keys, ops[i].Key())
	}
	return plan.Digest(keys)
}

// judgeHistory compares every outcome of a history with the solo outcome.
func (g *c13Engine) judgeHistory(hp *histPlan, res *histResult, p Proc) (*histVerdict, error) {
	if p.TimedOut && g.e.SlowIsNoVerdict("go", "a history") {
		return nil, nil
	}
	if p.TimedOut {
		return &histVerdict{Class: "hang", Key: "hang/" + histKey(hp.Ops, len(hp.Ops)), Detail: "the history did not finish within the time limit"}, nil
	}
	if p.Exit == 3 {
		return nil, Troublef("history worker: %s", tail(p.Stderr, 5))
	}
	if p.Exit != 0 {
		return &histVerdict{Class: "crash", Key: "crash/" + histKey(hp.Ops, len(hp.Ops)), Detail: "the process died: " + firstLine(p.Stderr)}, nil
	}
	for i := range res.Outcomes {
		op := &hp.Ops[i]
		got := res.Outcomes[i]
		if got.Mut != "" {
			return &histVerdict{Class: "mutation", OpIdx: i, Key: "mutation/" + op.Key(), Detail: fmt.Sprintf("op %d %s: %s", i, opBrief(op), got.Mut)}, nil
		}
		want, err := g.solo.One(op)
		if err != nil {
			return nil, err
		}
		if !got.Equal(want) {
			return &histVerdict{Class: "diverge:" + op.K, OpIdx: i, Key: "diverge/" + op.Key() + "/after=" + histKey(hp.Ops, i),
				Detail: fmt.Sprintf("op %d %s returned %s, but alone in a fresh process it returns %s", i, opBrief(op), mustJSON(got), mustJSON(want))}, nil
		}
	}
	if len(res.Altered) > 0 {
		return &histVerdict{Class: "altered", Key: "altered/" + histKey(hp.Ops, len(hp.Ops)), Detail: res.Altered[0]}, nil
	}
	if len(res.Outcomes) != len(hp.Ops) {
		return nil, Troublef("history worker returned %d outcomes for %d ops", len(res.Outcomes), len(hp.Ops))
	}
	return nil, nil
}

func (g *c13Engine) run(hp *histPlan) (*histResult, *histVerdict, error) {
	var res histResult
	p, err := g.e.RunJSON(g.bin, "hist", hp, &res, 120*time.Second, hp.Env...)
	if err != nil {
		return nil, nil, err
	}
	v, err := g.judgeHistory(hp, &res, p)
	if v != nil && len(hp.Env) > 0 {
		v.Detail += fmt.Sprintf(" [process environment: %s]", strings.Join(hp.Env, " "))
	}
	return &res, v, err
}

func (g *c13Engine) violation(hp *histPlan, v *histVerdict) *Violation {
	return &Violation{Property: "C13", Class: v.Class, Key: v.Key, Detail: v.Detail, Engine: "histsim", Plan: hp}
}

func toHistPlan(pl interface{}) (*histPlan, error) {
	var hp histPlan
	b, err := json.Marshal(pl)
	if err != nil {
		return nil, err
	}
	return &hp, json.Unmarshal(b, &hp)
}

// Reproduce re-executes the history. A tree whose results depend on something that is neither argument nor
// history (Go's randomised map iteration order, for one) violates C13 by that very fact, but then a single
// re-execution may come out clean: the history is tried up to six times before it counts as not reproduced.
func (g *c13Engine) Reproduce(pl interface{}) (*Violation, error) {
	hp, err := toHistPlan(pl)
	if err != nil {
		return nil, err
	}
	tries := 6
	if len(hp.Ops) == 1 {
		tries = 128 // one call alone against its own solo outcome: the canonical form of "not a function of its arguments"
	}
	for try := 0; try < tries; try++ {
		_, v, err := g.run(hp)
		if err != nil {
			return nil, err
		}
		if v != nil {
			if try > 0 {
				v.Detail += fmt.Sprintf(" [observed in 1 of %d executions of the same history: the outcome is not a function of arguments and history]", try+1)
			}
			return g.violation(hp, v), nil
		}
	}
	return nil, nil
}

func (g *c13Engine) Minimise(v *Violation) *Violation {
	hp, err := toHistPlan(v.Plan)
	if err != nil {
		return v
	}
	sub := func(keep []int) *histPlan {
		t := *hp
		t.Ops = nil
		for _, i := range keep {
			t.Ops = append(t.Ops, hp.Ops[i])
		}
		return &t
	}
	// does some call of the history diverge all by itself (a tree whose results are not even a function of
	// the arguments, e.g. through randomised map iteration)? then that single call is the minimal plan
	if strings.HasPrefix(v.Class, "diverge:") {
		for i := range hp.Ops {
			if !strings.Contains(v.Key, hp.Ops[i].Key()) {
				continue
			}
			one := sub([]int{i})
			if got, err := g.Reproduce(one); err == nil && got != nil && got.Class == v.Class {
				return got
			}
			break
		}
	}
	keep := DDMin(len(hp.Ops), func(k []int) bool {
		_, got, err := g.run(sub(k))
		return err == nil && got != nil && got.Class == v.Class
	}, 300, 60*time.Second)
	best := sub(keep)
	_, got, err := g.run(best)
	if err != nil || got == nil || got.Class != v.Class {
		return v
	}
	return g.violation(best, got)
}

// pairOps: the three probe calls of a language for the ordered-pair enumeration.
func pairOps(rng *plan.Rand, lang int) (valid, invalid, gen plan.Op) {
	sl := lang
	if !ref.Supported(sl) {
		sl = ref.English
	}
	ent := rng.Bytes(16)
	ent[0] |= 0x80
	valid = plan.Op{K: "check", Lang: lang}
	setM(&valid, MakeSentence(rng, "valid", ent, sl))
	invalid = plan.Op{K: "check", Lang: lang}
	setM(&invalid, MakeSentence(rng, "badsum", ent, sl))
	gen = plan.Op{K: "ent", Lang: lang, Ent: hex.EncodeToString(rng.Bytes(20))}
	return
}

// CheckC13 - histories from a cold start against the history-free oracle.
func CheckC13(e *Env) (int, error) {
	if err := e.CopyRepo(); err != nil {
		return 2, err
	}
	src, err := e.BuildHarness("./harness/srcsim", "srcsim")
	if err != nil {
		return 2, err
	}
	solo := NewSolo(e, src)
	g := &c13Engine{e, src, solo}
	thorough := e.Tier == "thorough"
	rng := plan.NewRand(plan.Derive(e.Seed, "C13/pool", 0))
	poolSize, sampled := 400, 7000
	if thorough {
		poolSize, sampled = 3000, 600000
	}
	pool := GenPool(rng, poolSize, AllLangs)
	var plans []*histPlan
	kindOf := map[int]string{}
	// (1) every ordered pair of first-used languages x first-op kind x second-op kind
	pairLangs := append(append([]int{}, AllLangs...), -1, 10)
	probes := map[int][3]plan.Op{}
	for _, l := range pairLangs {
		a, b, c := pairOps(rng, l)
		probes[l] = [3]plan.Op{a, b, c}
		pool = append(pool, a, b, c)
	}
	for _, l1 := range pairLangs {
		for _, l2 := range pairLangs {
			for k1 := 0; k1 < 3; k1++ {
				for k2 := 0; k2 < 3; k2++ {
					kindOf[len(plans)] = "pair"
					plans = append(plans, &histPlan{Source: "hook", Hold: true, Ops: []plan.Op{probes[l1][k1], probes[l2][k2], probes[l1][0], probes[l2][0]}})
				}
			}
		}
	}
	// (1b) the same phrase asked under two Language values: before, and right after, it was accepted under its own
	for _, a := range AllLangs {
		va := probes[a][0]
		for _, b := range pairLangs {
			if b == a {
				continue
			}
			vb := va
			vb.Lang = b
			vv := vb
			vv.K = "valid"
			kindOf[len(plans)] = "cross"
			plans = append(plans, &histPlan{Source: "hook", Hold: true, Ops: []plan.Op{vb, va, vb, vv}})
		}
	}
	// (1c) idle periods: a language's table warm, the caller idle for d, the same and another language asked again
	for _, a := range AllLangs {
		for k, d := range []int64{31000, 61000, 3601000, 90000000, 34560000000} {
			b := AllLangs[(a+1+k)%len(AllLangs)]
			late, lateB := probes[a][0], probes[b][0]
			late.J, lateB.J = d, d
			kindOf[len(plans)] = "idle"
			plans = append(plans, &histPlan{Source: "hook", Hold: true, Ops: []plan.Op{probes[a][0], late, probes[a][0], probes[a][2]}})
			kindOf[len(plans)] = "idle"
			plans = append(plans, &histPlan{Source: "hook", Hold: true, Ops: []plan.Op{probes[a][0], probes[b][0], lateB, probes[a][0], probes[a][1], late, probes[b][2]}})
		}
	}
	// (1d) a returned seed / mnemonic held across a collection cycle and further calls
	for _, a := range AllLangs {
		sd := plan.Op{K: "seed", Lang: a}
		pv := probes[a][0]
		setM(&sd, pv.Mnemonic())
		setP(&sd, "TREZOR")
		sd.GC = true
		g2 := probes[a][2]
		g2.GC = true
		kindOf[len(plans)] = "held-across-gc"
		plans = append(plans, &histPlan{Source: "hook", Hold: true, Ops: []plan.Op{sd, g2, probes[a][0], probes[a][2], sd}})
	}
	pairs := len(plans)
	if err := solo.All(pool); err != nil {
		return 2, err
	}
	e.Logf("C13: pool of %d calls solo-oracled in %d fresh processes", len(pool), solo.Procs)
	// (2) seeded histories
	var fails []int
	for i := range pool {
		o, _ := solo.One(&pool[i])
		if !o.IsNil || o.Panic != "" {
			fails = append(fails, i)
		}
	}
	for i := 0; i < sampled; i++ {
		r := plan.NewRand(plan.Derive(e.Seed, "C13/hist", uint64(i)))
		var ops []plan.Op
		n := r.Range(1, 40)
		if r.Intn(3) == 0 {
			n = r.Range(1, 5)
		}
		kind := "mixed"
		// language focus: few languages make first-use orders collide
		focus := map[int]bool{}
		if r.Intn(2) == 0 {
			for j := 0; j < r.Range(1, 3); j++ {
				focus[r.Intn(ref.NumLang)] = true
			}
		}
		pick := func() plan.Op {
			for try := 0; try < 50; try++ {
				op := pool[r.Intn(len(pool))]
				if len(focus) == 0 || focus[op.Lang] || op.K == "seed" || !ref.Supported(op.Lang) {
					return op
				}
			}
			return pool[r.Intn(len(pool))]
		}
		if r.Intn(4) == 0 && len(fails) > 0 { // histories that start with failures
			kind = "failures-first"
			for j := 0; j < r.Range(1, 5); j++ {
				ops = append(ops, pool[fails[r.Intn(len(fails))]])
			}
		}
		for len(ops) < n {
			ops = append(ops, pick())
		}
		if r.Intn(3) == 0 { // a call and its one-argument variation, alternating (memoisation keyed by part of the arguments)
			kind = "variation"
			op := pick()
			v := op
			switch {
			case op.K == "seed" && r.Intn(4) == 0:
				// two calls whose password||"mnemonic"||passphrase strings coincide: (M, a+"mnemonic"+b) vs (M+"mnemonic"+a, b)
				a, b := []string{"", " ", " #", "x"}[r.Intn(4)], []string{"2", "", "TREZOR", "\u00e9"}[r.Intn(4)]
				setP(&op, a+"mnemonic"+b)
				v = op
				setM(&v, op.Mnemonic()+"mnemonic"+a)
				setP(&v, b)
			case op.K == "seed" && r.Intn(3) == 0 && len(op.Passphrase())+len(op.Mnemonic()) > 0:
				// the same concatenation split elsewhere: (M, P) vs (M+P[:k], P[k:]) or (M[:n-k], M[n-k:]+P)
				m, pp := op.Mnemonic(), op.Passphrase()
				if len(pp) > 0 && (r.Bool() || len(m) == 0) {
					k := r.Range(1, len(pp))
					setM(&v, m+pp[:k])
					setP(&v, pp[k:])
				} else {
					k := r.Range(1, len(m))
					setM(&v, m[:len(m)-k])
					setP(&v, m[len(m)-k:]+pp)
				}
			case op.K == "seed" && r.Bool():
				setP(&v, op.Passphrase()+"x")
			case op.K == "seed":
				setM(&v, op.Mnemonic()+" x")
			default:
				for v.Lang == op.Lang {
					v.Lang = append(append([]int{}, AllLangs...), UnsupportedLangs...)[r.Intn(14)]
				}
			}
			at := r.Intn(len(ops) + 1)
			seq := []plan.Op{v, op, v, op}
			if r.Bool() {
				seq = []plan.Op{op, v, op}
			}
			ops = append(ops[:at], append(seq, ops[at:]...)...)
		}
		if r.Intn(3) == 0 && len(ops) >= 2 { // the same call at the first and at a later position
			kind = "repeat"
			rep := ops[0]
			rep.Scribble = true
			ops[0] = rep
			ops = append(ops, ops[0])
			k := r.Range(1, len(ops)-1)
			ops[k] = ops[0]
		}
		if r.Intn(4) == 0 && len(ops) >= 2 { // the caller is idle for a while between calls (clock seam: simulated time passes)
			for j := 0; j < r.Range(1, 3); j++ {
				ops[r.Range(1, len(ops)-1)].J = JumpVals[r.Intn(len(JumpVals))]
			}
		}
		if r.Intn(4) == 0 { // memory pressure: a GC cycle (finalizers get time to run) right after some calls
			for j := 0; j < r.Range(1, 3); j++ {
				ops[r.Intn(len(ops))].GC = true
			}
		}
		for j := range ops { // the simulated caller's buffer habits are drawn per history
			if ops[j].K == "ent" && !ops[j].Nil {
				ops[j].Cap = []int{0, 1, 16, 64}[r.Intn(4)]
				ops[j].Scribble = r.Bool()
			}
			if ops[j].K == "seed" {
				ops[j].Scribble = r.Bool()
			}
		}
		kindOf[len(plans)] = kind
		plans = append(plans, &histPlan{Source: "hook", Hold: true, Ops: ops})
	}
	// long histories: thousands of cheap calls in one process (state that only shows at the Nth call)
	nLong := 6
	if thorough {
		nLong = 150
	}
	var cheap []int
	for i := range pool {
		if pool[i].K != "seed" {
			cheap = append(cheap, i)
		}
	}
	for i := 0; i < nLong; i++ {
		r := plan.NewRand(plan.Derive(e.Seed, "C13/long", uint64(i)))
		var ops []plan.Op
		for k := 0; k < 8000; k++ {
			ops = append(ops, pool[cheap[r.Intn(len(cheap))]])
		}
		kindOf[len(plans)] = "long"
		plans = append(plans, &histPlan{Source: "hook", Hold: false, Ops: ops})
	}
	// the environment is no argument: every variable the tree is seen to read is set, in turn, to plausible
	// values, and the probe calls of every language (unsupported values included) must come out as they do alone
	// in the ambient environment
	envNames, envOpaque := instr.EnvNames(e.RepoCopy())
	envVals := append([]string{"1", "true", "0", "C", "en_US.UTF-8", "ja_JP.UTF-8", "ko_KR.UTF-8", "zh_CN.UTF-8", "zh_TW.UTF-8",
		"fr_FR.UTF-8", "it_IT.UTF-8", "es_ES.UTF-8", "cs_CZ.UTF-8", "pt_BR.UTF-8"}, instr.EnvValueCandidates(e.RepoCopy())...)
	envRuns := 0
	for _, name := range envNames {
		for _, val := range envVals {
			var ops []plan.Op
			for _, l := range pairLangs {
				ops = append(ops, probes[l][2], probes[l][0], probes[l][1])
			}
			r := plan.NewRand(plan.Derive(e.Seed, "C13/env", uint64(envRuns)))
			for k := 0; k < 12; k++ {
				ops = append(ops, pool[r.Intn(len(pool))])
			}
			kindOf[len(plans)] = "env"
			plans = append(plans, &histPlan{Source: "hook", Hold: true, Ops: ops, Env: []string{name + "=" + val}})
			envRuns++
		}
	}
	var mu sync.Mutex
	var viols []*Violation
	var trouble error
	distinct := map[string]bool{}
	byKind := map[string]int{}
	probesHit := map[string]int{}
	totalOps, scribbles, reinspects, devReads := 0, 0, 0, 0
	idleN, idleMs := 0, int64(0)
	forcedGC := 0
	fired := map[string]int{}
	var samples []interface{}
	firstPairs := map[[2]int]bool{}
	var od OrderedDigest
	e.Logf("C13: %d histories (%d enumerated pair histories)", len(plans), pairs)
	e.Parallel(len(plans), func(i int) {
		hp := plans[i]
		res, v, err := g.run(hp)
		mu.Lock()
		defer mu.Unlock()
		if err != nil {
			if trouble == nil {
				trouble = err
			}
			return
		}
		byKind[kindOf[i]]++
		totalOps += len(hp.Ops)
		for _, op := range hp.Ops {
			if op.J != 0 {
				idleN++
				idleMs += op.J
			}
		}
		if res != nil {
			od.Add(i, strDigest(mustJSON(res.Outcomes)+mustJSON(res.Altered)))
			forcedGC += res.ForcedGC
			scribbles += res.Scribbles
			reinspects += res.Reinspects
			for _, rr := range res.Reads {
				devReads += len(rr)
				for _, rec := range rr {
					switch {
					case rec.Err != "" && rec.Gave > 0:
						fired["with-bytes"]++
					case rec.Err != "":
						fired[rec.Err]++
					case rec.Gave == 0 && rec.Asked > 0:
						fired["stall"]++
					case rec.Gave < rec.Asked:
						fired["short"]++
					}
				}
			}
		}
		// non-trivial: >= 2 ops touching a common language (or the same buffer-carrying call twice)
		langs := map[int]int{}
		for _, op := range hp.Ops {
			if op.K != "seed" {
				langs[op.Lang]++
			}
		}
		nt := false
		for _, c := range langs {
			if c >= 2 {
				nt = true
			}
		}
		if nt {
			distinct[histKey(hp.Ops, len(hp.Ops))] = true
		}
		if kindOf[i] == "pair" {
			firstPairs[[2]int{hp.Ops[0].Lang, hp.Ops[1].Lang}] = true
		}
		if kindOf[i] == "failures-first" {
			probesHit["failures_first_histories"]++
		}
		if kindOf[i] == "repeat" {
			probesHit["repeat_after_scribble"]++
		}
		faulted := false
		for j, op := range hp.Ops {
			if op.K == "new" && res != nil && j < len(res.Outcomes) {
				if faulted && res.Outcomes[j].IsNil {
					probesHit["newmnemonic_success_after_faulted_newmnemonic"]++
					faulted = false
				}
				if !res.Outcomes[j].IsNil && j < len(res.Reads) && len(res.Reads[j]) > 0 {
					faulted = true
				}
			}
		}
		if v != nil {
			viols = append(viols, g.violation(hp, v))
		}
		if len(samples) < 5 && (i%997 == 0) && res != nil && len(hp.Ops) <= 40 {
			var ob []string
			for j := range hp.Ops {
				if j >= len(res.Outcomes) {
					break
				}
				ob = append(ob, opBrief(&hp.Ops[j])+" -> "+res.Outcomes[j].Out+" "+res.Outcomes[j].Err+res.Outcomes[j].Panic)
			}
			samples = append(samples, map[string]interface{}{"kind": kindOf[i], "history": ob})
		}
	})
	if trouble != nil {
		return 2, trouble
	}
	probesHit["ordered_first_use_pairs_covered"] = len(firstPairs)
	sort.Slice(viols, func(a, b int) bool { return len(mustJSON(viols[a].Plan)) < len(mustJSON(viols[b].Plan)) })
	code, reported := e.Report("C13", viols, g)
	for _, p := range []string{"failures_first_histories", "repeat_after_scribble", "newmnemonic_success_after_faulted_newmnemonic"} {
		if probesHit[p] == 0 {
			fmt.Printf("PROBE-ZERO C13: %s\n", p)
		}
	}
	cov := map[string]interface{}{
		"evaluations":                            len(plans),
		"distinct_nontrivial":                    len(distinct),
		"rule":                                   "a case = one history (1-40 exported calls; a few histories of 8000 calls) executed by a single goroutine in a fresh process, every outcome compared with the outcome of the same call alone in a fresh process of the same build; caller-owned buffers (entropy incl. spare capacity) and returned seeds/strings re-inspected after every later call. Enumerated: all 12x12 ordered pairs of first-used Language values x 3 first-op kinds x 3 second-op kinds; every supported language's valid phrase asked under each of the 11 other Language values before and after its acceptance. Non-trivial: >= 2 calls on a common Language value; distinct by digest of the call sequence.",
		"exhaustive":                             false,
		"exhaustive_parts":                       "ordered pairs of first-used languages (10 supported + 2 unsupported) x {validate valid, validate invalid, generate}^2",
		"samples":                                samples,
		"runs":                                   len(plans),
		"distinct_histories":                     len(distinct),
		"history_kinds":                          byKind,
		"sim_steps_total":                        totalOps,
		"sim_time_note":                          "the unchanged tree reads no clock, so simulated time is counted in history operations; a tree that imports \"time\" gets Now/Since/Until from the clock seam, which the simulator moves forward in jumps (idle periods of 50 ms to 400 d between calls)",
		"clock_seam_files":                       e.ClockFiles("go"),
		"forced_gc_cycles":                       forcedGC,
		"simulated_idle_periods":                 idleN,
		"simulated_idle_ms_total":                idleMs,
		"solo_oracle_processes":                  solo.Procs,
		"pool_calls":                             len(pool),
		"environment_variables_read_by_the_tree": envNames,
		"environment_reads_with_opaque_names":    envOpaque,
		"histories_with_environment_set":         envRuns,
		"scribbles":                              scribbles,
		"reinspections":                          reinspects,
		"device_reads":                           devReads,
		"faults_fired":                           fired,
		"probes":                                 probesHit,
		"raw_violations":                         len(viols),
		"outcome_digest":                         od.String(),
	}
	if err := e.WriteEvidence("C13", "exploration", cov, []string{
		"solo oracle: the call alone in a fresh process of the same (plain) build defines 'a function of its arguments alone'",
		"process restart is the only way to reach cold package state, so one history = one OS process",
	}, reported); err != nil {
		return 2, err
	}
	e.Logf("C13: %d histories, %d distinct non-trivial, %d raw violations", len(plans), len(distinct), len(viols))
	return code, nil
}
