package drv

import (
	"fmt"
	"os"
)

// Engine knows how to re-execute the plan of a violation in a fresh process.
type Engine interface {
	// Reproduce runs the plan; it returns the violation it observes (nil if none).
	Reproduce(plan interface{}) (*Violation, error)
	// Minimise returns a smaller plan with the same violation class (or the input).
	Minimise(v *Violation) *Violation
}

// Report turns raw violations into KNOWN-FINDING / VIOLATION lines with
// minimised, confirmed replay files. It returns the process exit code.
func (e *Env) Report(id string, viols []*Violation, eng Engine) (int, int) {
	known, err := e.KnownFindings(id)
	if err != nil {
		fmt.Println(err)
		return 2, 0
	}
	seen := map[string]bool{}
	reported, flaky := 0, 0
	printedKnown := map[string]bool{}
	for _, v := range viols {
		if what, ok := known[v.Key]; ok {
			if !printedKnown[v.Key] {
				fmt.Printf("KNOWN-FINDING: property=%s %s [%s]\n", id, what, v.Key)
				printedKnown[v.Key] = true
			}
			continue
		}
		if seen[v.Class] || reported >= 4 {
			continue
		}
		seen[v.Class] = true
		e.Logf("%s: raw violation class=%s key=%s: %s", id, v.Class, v.Key, v.Detail)
		final := v
		minimised := false
		if os.Getenv("VERIF_NO_MINIMISE") == "" {
			if m := eng.Minimise(v); m != nil && m != v {
				final, minimised = m, true
			}
		}
		// confirmation in a fresh process before anything is reported
		got, err := eng.Reproduce(final.Plan)
		if err != nil {
			fmt.Printf("REPLAY-TROUBLE property=%s: %v\n", id, err)
			flaky++
			continue
		}
		if got == nil || got.Class != v.Class {
			if minimised {
				final, minimised = v, false
				got, err = eng.Reproduce(final.Plan)
			}
			if err != nil || got == nil || got.Class != v.Class {
				fmt.Printf("FLAKY-OBSERVATION property=%s class=%s: the violation did not reproduce from its plan; treated as infrastructure trouble\n", id, v.Class)
				p, _ := e.WriteReplay(v, false, "did not reproduce")
				fmt.Printf("  plan kept at %s\n", p)
				flaky++
				continue
			}
		}
		final.Detail = got.Detail
		if what, ok := known[got.Key]; ok {
			fmt.Printf("KNOWN-FINDING: property=%s %s [%s]\n", id, what, got.Key)
			continue
		}
		path, err := e.WriteReplay(final, minimised, "")
		if err != nil {
			fmt.Printf("REPLAY-TROUBLE property=%s: %v\n", id, err)
			flaky++
			continue
		}
		fmt.Printf("VIOLATION property=%s replay=%s\n", id, path)
		fmt.Printf("  class=%s key=%s\n  %s\n", final.Class, final.Key, final.Detail)
		reported++
	}
	if reported > 0 {
		return 1, reported
	}
	if flaky > 0 {
		return 2, 0
	}
	return 0, 0
}
