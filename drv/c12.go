package drv

import (
	"bufio"
	"encoding/hex"
	"encoding/json"
	"fmt"
	"os"
	"path/filepath"
	"regexp"
	"sort"
	"strconv"
	"strings"
	"sync"
	"sync/atomic"
	"time"

	"a0verif/instr"
	"a0verif/plan"
	"a0verif/ref"
)

type grant struct {
	To    int   `json:"to"`
	Until int64 `json:"until"`
}

type schedule struct {
	Mode     string  `json:"mode"`
	Policy   string  `json:"policy,omitempty"`
	Seed     uint64  `json:"seed,omitempty"`
	MeanGap  int     `json:"mean_gap,omitempty"`
	Stay     float64 `json:"stay,omitempty"`
	D        int     `json:"d,omitempty"`
	EstSteps int64   `json:"est_steps,omitempty"`
	HotSites []int   `json:"hot_sites,omitempty"`
	Order    []int   `json:"order,omitempty"`
	Grants   []grant `json:"grants,omitempty"`
	PoolSeed uint64  `json:"pool_seed,omitempty"`
	GCAt     []int   `json:"gc_at,omitempty"`
	GCEnd    int     `json:"gc_end,omitempty"`
	GCStorm  bool    `json:"gc_storm,omitempty"`
}

type schedPlan struct {
	Tasks    [][]plan.Op `json:"tasks"`
	Schedule schedule    `json:"schedule"`
	StepCap  int64       `json:"step_cap,omitempty"`
	Record   string      `json:"record,omitempty"`
	// Preinit: run in the binary whose crypto/rand.Reader IS the device multiplexer (no hook swap), so that
	// paths the library takes only for the OS reader itself are scheduled too; device scripts are fault-free there
	Preinit bool     `json:"preinit,omitempty"`
	Shared  []string `json:"shared_ent,omitempty"`       // caller buffers several tasks pass windows of (Op.Shared)
	Foreign bool     `json:"foreign_possible,omitempty"` // the tree starts goroutines of its own (set from the instrumenter's report)
	Grants  bool     `json:"want_grants,omitempty"`
	Focus   []int    `json:"focus,omitempty"` // informational: languages in focus
	// Warm: calls made sequentially before the concurrent callers start; WarmJump: simulated idle ms after them
	Warm     []plan.Op `json:"warm,omitempty"`
	WarmJump int64     `json:"warm_jump_ms,omitempty"`
	// GoMaxProcs: the GOMAXPROCS the process starts with (0 = 4). The simulation itself does not depend on it;
	// a tree that sizes something by runtime.GOMAXPROCS or NumCPU does.
	GoMaxProcs int `json:"gomaxprocs,omitempty"`
	// Env: additions to the process environment (a variable the tree is seen to read, set to a plausible value)
	Env []string `json:"env,omitempty"`
}

type schedStats struct {
	Events              int   `json:"events"`
	Grants              int   `json:"grants"`
	Switches            int   `json:"switches"`
	Steps               int64 `json:"steps"`
	BlockedOnOnce       int   `json:"blocked_on_running_once"`
	BlockedOnLock       int   `json:"blocked_on_lock"`
	OnceBuilt           int   `json:"onces_built"`
	OnceMultiEnter      int   `json:"onces_entered_by_2plus_tasks"`
	PreemptInBuild      int   `json:"preempted_inside_once_func"`
	OtherStepsInBuild   int64 `json:"steps_by_other_tasks_while_a_once_ran"`
	LockAcquires        int   `json:"lock_acquisitions"`
	CondWaits           int   `json:"cond_waits"`
	ForeignWakes        int   `json:"wakeups_from_unscheduled_goroutines"`
	RealBlocking        int   `json:"channel_statements_run_detached"`
	ForcedGC            int   `json:"forced_gc_cycles"`
	ReadersBehindWriter int   `json:"readers_queued_behind_a_pending_writer"`
	PoolDrops           int64 `json:"pool_items_dropped"`
	ExplicitFallbacks   int   `json:"explicit_fallbacks"`
}

type schedOut struct {
	Warm        []plan.Outcome     `json:"warm,omitempty"`
	Outcomes    [][]plan.Outcome   `json:"outcomes"`
	Delivered   [][]string         `json:"delivered"`
	Reads       [][][]plan.ReadRec `json:"reads"`
	Stats       schedStats         `json:"stats"`
	Deadlock    string             `json:"deadlock,omitempty"`
	StepCap     bool               `json:"step_cap,omitempty"`
	Protocol    string             `json:"protocol,omitempty"`
	SwitchSites map[string]int     `json:"switch_sites,omitempty"`
	SiteHits    map[string]int     `json:"site_hits,omitempty"`
	Digest      string             `json:"digest"`
	DevOrder    []int              `json:"dev_order,omitempty"`
	Grants      []grant            `json:"grants,omitempty"`
	NGrants     int                `json:"n_grants"`
	Foreign     int64              `json:"foreign_hook_calls,omitempty"`
	SharedMut   string             `json:"shared_buffer_mutated,omitempty"`
	IdleBytes   string             `json:"idle_device_delivered,omitempty"`
	IdleChunks  []string           `json:"idle_device_reads,omitempty"`
}

type c12Engine struct {
	e       *Env
	bin     string
	binCold string
	noCold  int32 // set (atomically) once a pre-init worker reports that the seam is unavailable on this tree (C07's business, not C12's)
	solo    *Solo
	sites   map[int]instr.Site
	mod     string // module path of the code under test
	// the tree starts goroutines of its own (or uses channels/timers): those run unscheduled,
	// so runs are not fully controlled; replays are retried and the audit cannot be demanded
	unmodelled bool
}

type schedVerdict struct {
	Class        string
	Key          string
	Detail       string
	Inconclusive string // stall / stepcap: infrastructure, never a verdict
}

var frameRe = regexp.MustCompile(`^\s+(\S+):(\d+)( \+0x[0-9a-f]+)?$`)

// parseRace extracts, for each of the two access stacks of the first report,
// the innermost frame that belongs to the module under test.
func (g *c12Engine) parseRace(report string) (where []string, excerpt string, harnessOnly bool) {
	lines := strings.Split(report, "\n")
	var stacks [][]string // frames "func @ file:line" per stack section
	var cur []string
	inReport := false
	fn := ""
	secs := 0
	for _, l := range lines {
		if strings.HasPrefix(l, "WARNING: DATA RACE") {
			if inReport {
				break
			}
			inReport = true
			continue
		}
		if !inReport {
			continue
		}
		if strings.HasPrefix(l, "==================") {
			break
		}
		if strings.TrimSpace(l) == "" {
			if cur != nil {
				stacks = append(stacks, cur)
				cur = nil
			}
			continue
		}
		if !strings.HasPrefix(l, " ") { // a section header
			secs++
			if cur != nil {
				stacks = append(stacks, cur)
			}
			cur = []string{}
			if len(excerpt) < 1500 {
				excerpt += l + "\n"
			}
			continue
		}
		if m := frameRe.FindStringSubmatch(l); m != nil && fn != "" {
			cur = append(cur, fn+" @ "+m[1]+":"+m[2])
			if len(stacks) < 2 && len(excerpt) < 1500 {
				excerpt += "    " + fn + " " + m[1] + ":" + m[2] + "\n"
			}
			fn = ""
		} else {
			fn = strings.TrimSpace(l)
		}
	}
	if cur != nil {
		stacks = append(stacks, cur)
	}
	found := 0
	for i := 0; i < len(stacks) && i < 2; i++ {
		w := "?"
		for _, f := range stacks[i] {
			if strings.HasPrefix(f, g.mod+".") || strings.HasPrefix(f, g.mod+"/internal") {
				if strings.Contains(f, "/zzsimrt") {
					continue
				}
				at := f[strings.Index(f, " @ ")+3:]
				at = strings.TrimPrefix(at, g.mod+"/")
				if k := strings.LastIndex(at, "/"); k >= 0 && !strings.Contains(at, "internal/") {
					at = at[k+1:]
				}
				w = at
				found++
				break
			}
		}
		where = append(where, w)
	}
	sort.Strings(where)
	return where, excerpt, found == 0
}

// runPlan executes one plan in a fresh worker process and classifies the result.
func (g *c12Engine) runPlan(sp *schedPlan, env ...string) (*schedOut, *schedVerdict, error) {
	d := g.e.JobDir()
	defer os.RemoveAll(d)
	inP, outP := filepath.Join(d, "plan.json"), filepath.Join(d, "out.json")
	if g.unmodelled && !sp.Foreign {
		c := *sp
		c.Foreign = true
		sp = &c
	}
	b, _ := json.Marshal(sp)
	if err := os.WriteFile(inP, b, 0644); err != nil {
		return nil, nil, err
	}
	racePath := filepath.Join(d, "race")
	gmp := 4
	if sp.GoMaxProcs > 0 {
		gmp = sp.GoMaxProcs
	}
	env = append(append([]string{"GORACE=halt_on_error=1 exitcode=66 atexit_sleep_ms=0 log_path=" + racePath, "GOMAXPROCS=" + strconv.Itoa(gmp)}, sp.Env...), env...)
	bin := g.bin
	cold := sp.Preinit && g.binCold != "" && atomic.LoadInt32(&g.noCold) == 0
	if cold {
		bin = g.binCold
	}
	p := g.e.RunProc(150*time.Second, env, d, bin, inP, outP)
	if p.Exit == 4 && cold { // the tree's default source is not crypto/rand.Reader: hook configuration only
		atomic.StoreInt32(&g.noCold, 1)
		cold = false
		p = g.e.RunProc(150*time.Second, env, d, g.bin, inP, outP)
	}
	switch {
	case p.TimedOut:
		return nil, &schedVerdict{Inconclusive: "worker killed after 150 s"}, nil
	case p.Exit == 66:
		m, _ := filepath.Glob(racePath + ".*")
		rep := ""
		for _, f := range m {
			rb, _ := os.ReadFile(f)
			rep += string(rb)
		}
		where, excerpt, harnessOnly := g.parseRace(rep)
		if harnessOnly {
			return nil, nil, Troublef("race report without a frame of the code under test (simulator bug):\n%s", rep)
		}
		return nil, &schedVerdict{Class: "race", Key: "race/" + strings.Join(where, "+"), Detail: "the race detector reports a data race between " + strings.Join(where, " and ") + ":\n" + excerpt}, nil
	case p.Exit == 5:
		return nil, &schedVerdict{Inconclusive: "simulation stalled: " + firstLine(p.Stderr)}, nil
	case p.Exit == 3:
		return nil, nil, Troublef("schedsim worker: %s", tail(p.Stderr, 6))
	case p.Exit != 0:
		return nil, &schedVerdict{Class: "crash", Key: "crash/" + firstLine(p.Stderr), Detail: "the process died (exit " + strconv.Itoa(p.Exit) + "): " + tail(p.Stderr, 12)}, nil
	}
	var out schedOut
	if err := readJSONFile(outP, &out); err != nil {
		return nil, nil, err
	}
	if out.Protocol != "" {
		return &out, nil, Troublef("scheduler protocol error: %s", out.Protocol)
	}
	if out.Deadlock != "" {
		return &out, &schedVerdict{Class: "deadlock", Key: "deadlock", Detail: "a call never returns: " + out.Deadlock}, nil
	}
	if out.StepCap {
		return &out, &schedVerdict{Inconclusive: "step cap reached"}, nil
	}
	if out.SharedMut != "" {
		return &out, &schedVerdict{Class: "shared-input-modified", Key: "shared-input-modified", Detail: out.SharedMut}, nil
	}
	// every op's outcome equals its solo outcome
	if len(out.Warm) != len(sp.Warm) {
		return &out, nil, Troublef("%d warm-up outcomes for %d calls", len(out.Warm), len(sp.Warm))
	}
	for k := range sp.Warm {
		want, err := g.solo.One(&sp.Warm[k])
		if err != nil {
			return &out, nil, err
		}
		if !out.Warm[k].Equal(want) {
			return &out, &schedVerdict{Class: "diverge:" + sp.Warm[k].K, Key: "diverge/" + sp.Warm[k].Key(),
				Detail: fmt.Sprintf("sequential warm-up call %d %s returned %s, but alone in a fresh process it returns %s", k, opBrief(&sp.Warm[k]), mustJSON(out.Warm[k]), mustJSON(want))}, nil
		}
	}
	for t := range sp.Tasks {
		if len(out.Outcomes[t]) != len(sp.Tasks[t]) {
			return &out, nil, Troublef("task %d returned %d outcomes for %d ops", t, len(out.Outcomes[t]), len(sp.Tasks[t]))
		}
		for k := range sp.Tasks[t] {
			op := &sp.Tasks[t][k]
			got := out.Outcomes[t][k]
			want, err := g.solo.One(op)
			if err != nil {
				return &out, nil, err
			}
			if got.Equal(want) {
				continue
			}
			if op.K == "new" && g.unmodelled && got.IsNil && got.Panic == "" {
				// the tree reads its source from goroutines of its own: those reads cannot be attributed to a
				// task (the scripted faults do not reach them), so NewMnemonic is judged by conservation alone
				if !ref.Supported(op.Lang) || g.readAheadTolerated(sp, &out, t, k) {
					continue
				}
			}
			if op.K == "new" && cold && want.IsNil {
				// default-configured process: the library may legitimately treat the OS reader specially
				// (read ahead, buffer); what must hold is C07's conservation form, checked below
				if !ref.Supported(op.Lang) || g.readAheadTolerated(sp, &out, t, k) {
					continue
				}
			}
			if op.K == "new" && g.readAheadTolerated(sp, &out, t, k) {
				continue
			}
			return &out, &schedVerdict{Class: "diverge:" + op.K, Key: "diverge/" + op.Key(),
				Detail: fmt.Sprintf("task %d op %d %s returned %s under this schedule, but alone in a fresh process it returns %s", t, k, opBrief(op), mustJSON(got), mustJSON(want))}, nil
		}
	}
	return &out, nil, nil
}

// readAheadTolerated accepts a NewMnemonic result that differs from the solo
// result only because the implementation reads ahead from the shared source
// under its own lock: the result must be the reference encoding of a run of
// bytes some task's device delivered, used by no other call. (Conservation
// form of DESIGN.md 4.4(2); never triggers on the pinned tree.)
func (g *c12Engine) readAheadTolerated(sp *schedPlan, out *schedOut, t, k int) bool {
	op := &sp.Tasks[t][k]
	o := out.Outcomes[t][k]
	if !o.IsNil || !ref.Supported(op.Lang) || !ref.ValidWordCount(op.N) {
		return false
	}
	m, _ := strconv.Unquote(o.Out)
	ent, ok, err := ref.Decode(m, op.Lang)
	if err != nil || !ok {
		return false
	}
	hx := hex.EncodeToString(ent)
	uses := 0
	foundIn := false
	for tt := range sp.Tasks {
		for kk := range sp.Tasks[tt] {
			if sp.Tasks[tt][kk].K != "new" {
				continue
			}
			if strings.Contains(out.Delivered[tt][kk], hx) || strings.Contains(out.IdleBytes, hx) {
				foundIn = true
			}
			if out.Outcomes[tt][kk].Out == o.Out {
				uses++
			}
		}
	}
	if !foundIn && len(out.IdleChunks) > 0 {
		// helper goroutines of several callers may interleave their reads on the shared device: the entropy
		// must then be a concatenation of whole reads of that device, in order
		rest := hx
		for _, c := range out.IdleChunks {
			if rest == "" {
				break
			}
			if c != "" && strings.HasPrefix(rest, c) {
				rest = rest[len(c):]
			}
		}
		foundIn = rest == ""
	}
	return foundIn && uses == 1
}

func (g *c12Engine) violation(sp *schedPlan, v *schedVerdict) *Violation {
	return &Violation{Property: "C12", Class: v.Class, Key: v.Key, Detail: v.Detail, Engine: "schedsim", Plan: sp}
}

func toSchedPlan(pl interface{}) (*schedPlan, error) {
	var sp schedPlan
	b, err := json.Marshal(pl)
	if err != nil {
		return nil, err
	}
	return &sp, json.Unmarshal(b, &sp)
}

func (g *c12Engine) Reproduce(pl interface{}) (*Violation, error) {
	sp, err := toSchedPlan(pl)
	if err != nil {
		return nil, err
	}
	tries := 1
	if g.unmodelled {
		tries = 12
	}
	for i := 0; i < tries; i++ {
		_, v, err := g.runPlan(sp)
		if err != nil {
			return nil, err
		}
		if v != nil && v.Class != "" {
			return g.violation(sp, v), nil
		}
	}
	return nil, nil
}

// explicitOf re-runs a policy plan with every decision written through and
// returns the same plan with the concrete grant list.
func (g *c12Engine) explicitOf(sp *schedPlan) (*schedPlan, error) {
	if sp.Schedule.Mode == "explicit" {
		return sp, nil
	}
	d := g.e.JobDir()
	defer os.RemoveAll(d)
	rec := filepath.Join(d, "grants.txt")
	t := *sp
	t.Record = rec
	g.runPlan(&t)
	f, err := os.Open(rec)
	if err != nil {
		return nil, err
	}
	defer f.Close()
	var gs []grant
	sc := bufio.NewScanner(f)
	for sc.Scan() {
		l := sc.Text()
		if strings.HasPrefix(l, "G ") {
			to, _ := strconv.Atoi(l[2:])
			gs = append(gs, grant{To: to, Until: 1 << 62})
		} else if strings.HasPrefix(l, "U ") && len(gs) > 0 {
			u, _ := strconv.ParseInt(l[2:], 10, 64)
			gs[len(gs)-1].Until = u
		}
	}
	ex := *sp
	ex.Record = ""
	ex.Schedule = schedule{Mode: "explicit", Grants: gs, PoolSeed: sp.Schedule.PoolSeed, GCAt: sp.Schedule.GCAt, GCEnd: sp.Schedule.GCEnd, GCStorm: sp.Schedule.GCStorm}
	return &ex, nil
}

func (g *c12Engine) Minimise(v *Violation) *Violation {
	sp, err := toSchedPlan(v.Plan)
	if err != nil {
		return v
	}
	same := func(t *schedPlan) bool {
		_, got, err := g.runPlan(t)
		return err == nil && got != nil && got.Class == v.Class && (v.Class != "race" || got.Key == v.Key)
	}
	ex, err := g.explicitOf(sp)
	if err != nil || !same(ex) {
		return v // the policy plan itself replays deterministically; keep it
	}
	t0 := time.Now()
	budget := func() bool { return time.Since(t0) < 90*time.Second }
	cur := ex
	// 0. the sequential warm-up and the idle period
	if len(cur.Warm) > 0 && budget() {
		c := *cur
		c.Warm = nil
		if same(&c) {
			cur = &c
		} else {
			w := cur.Warm
			keep := DDMin(len(w), func(k []int) bool {
				if !budget() {
					return false
				}
				c := *cur
				c.Warm = nil
				for _, i := range k {
					c.Warm = append(c.Warm, w[i])
				}
				return same(&c)
			}, 30, 40*time.Second)
			c := *cur
			c.Warm = nil
			for _, i := range keep {
				c.Warm = append(c.Warm, w[i])
			}
			cur = &c
		}
	}
	if cur.WarmJump != 0 && budget() {
		c := *cur
		c.WarmJump = 0
		if same(&c) {
			cur = &c
		}
	}
	// 1. drop whole tasks (their op lists are emptied so that task ids stay stable)
	for t := range cur.Tasks {
		if !budget() || len(cur.Tasks[t]) == 0 {
			continue
		}
		c := *cur
		c.Tasks = append([][]plan.Op(nil), cur.Tasks...)
		c.Tasks[t] = []plan.Op{}
		if same(&c) {
			cur = &c
		}
	}
	// 2. drop single ops
	type ref2 struct{ t, k int }
	var all []ref2
	for t := range cur.Tasks {
		for k := range cur.Tasks[t] {
			all = append(all, ref2{t, k})
		}
	}
	build := func(keep []int) *schedPlan {
		c := *cur
		c.Tasks = make([][]plan.Op, len(cur.Tasks))
		for i := range c.Tasks {
			c.Tasks[i] = []plan.Op{}
		}
		for _, i := range keep {
			c.Tasks[all[i].t] = append(c.Tasks[all[i].t], cur.Tasks[all[i].t][all[i].k])
		}
		return &c
	}
	if budget() {
		keep := DDMin(len(all), func(k []int) bool { return budget() && same(build(k)) }, 120, 40*time.Second)
		cur = build(keep)
	}
	// 3. drop scheduling decisions
	if budget() {
		gs := cur.Schedule.Grants
		keep := DDMin(len(gs), func(k []int) bool {
			if !budget() {
				return false
			}
			c := *cur
			c.Schedule.Grants = nil
			for _, i := range k {
				c.Schedule.Grants = append(c.Schedule.Grants, gs[i])
			}
			return same(&c)
		}, 200, 40*time.Second)
		c := *cur
		c.Schedule.Grants = []grant{}
		for _, i := range keep {
			c.Schedule.Grants = append(c.Schedule.Grants, gs[i])
		}
		cur = &c
	}
	_, got, err := g.runPlan(cur)
	if err != nil || got == nil || got.Class != v.Class {
		return v
	}
	return g.violation(cur, got)
}

// buildC12 makes the two scratch copies (plain for the solo oracle,
// instrumented + race for the scheduler) and returns the engine.
func buildC12(e *Env) (*c12Engine, *instr.Report, error) {
	if err := e.CopyRepo(); err != nil {
		return nil, nil, err
	}
	src, err := e.BuildHarness("./harness/srcsim", "srcsim")
	if err != nil {
		return nil, nil, err
	}
	idir, err := e.CopyRepoAs("irepo")
	if err != nil {
		return nil, nil, err
	}
	rep, err := instr.Library(idir)
	if err != nil {
		return nil, nil, Troublef("BUILD-TROUBLE instrumenter: %v", err)
	}
	bin, err := e.BuildHarnessMod("irepo", "./harness/schedsim", "schedsim", "-race")
	if err != nil && rep.ChanBrackets > 0 && instr.Hoist {
		// the copy does not build; if that is the hoisting of receives, a copy instrumented without it does
		e.Logf("C12: the instrumented copy does not build (%s); instrumenting again without hoisted receives", firstLine(err.Error()))
		instr.Hoist = false
		os.RemoveAll(idir)
		if idir, err = e.CopyRepoAs("irepo"); err != nil {
			return nil, nil, err
		}
		if rep, err = instr.Library(idir); err != nil {
			return nil, nil, Troublef("BUILD-TROUBLE instrumenter: %v", err)
		}
		bin, err = e.BuildHarnessMod("irepo", "./harness/schedsim", "schedsim", "-race")
	}
	if err != nil {
		return nil, nil, err
	}
	binCold, err := e.BuildHarnessMod("irepo", "./harness/schedsimcold", "schedsimcold", "-race")
	if err != nil {
		return nil, nil, err
	}
	// sanity gate: the instrumented copy still passes the repository's own tests
	if o, err := e.Go(idir, "test", "-count=1", "./..."); err != nil {
		if _, err2 := e.Go(e.RepoCopy(), "test", "-count=1", "./..."); err2 == nil {
			return nil, nil, Troublef("BUILD-TROUBLE the instrumented copy fails the repository's tests while the plain copy passes:\n%s", tail(o, 20))
		}
		e.Logf("C12: note: the repository's own tests fail on this tree (instrumented and plain alike)")
	}
	g := &c12Engine{e: e, bin: bin, binCold: binCold, solo: NewSolo(e, src), sites: map[int]instr.Site{}, mod: rep.Module, unmodelled: len(rep.Unmodelled) > 0}
	for _, s := range rep.Sites {
		g.sites[s.ID] = s
	}
	return g, rep, nil
}

// c12Pool: the seeded pool plus calls every language is guaranteed to have.
func c12Pool(rng *plan.Rand, size int) []plan.Op {
	pool := GenPool(rng, size, AllLangs)
	for _, l := range AllLangs {
		for _, sz := range []int{16, 24, 32} {
			ent := rng.Bytes(sz)
			ent[0] |= 0x40
			op := plan.Op{K: "check", Lang: l}
			setM(&op, MakeSentence(rng, "valid", ent, l))
			pool = append(pool, op)
		}
		ent := rng.Bytes(20)
		ent[0] |= 0x40
		op := plan.Op{K: "valid", Lang: l}
		setM(&op, MakeSentence(rng, "valid", ent, l))
		op2 := plan.Op{K: "check", Lang: l}
		setM(&op2, MakeSentence(rng, "badsum", ent, l))
		op3 := plan.Op{K: "check", Lang: l}
		setM(&op3, MakeSentence(rng, "nfc", ent, l))
		// the same valid phrase under another (and an unsupported) Language value
		op4, op5 := op, op
		op4.K, op4.Lang = "check", (l+1+rng.Intn(ref.NumLang-1))%ref.NumLang
		op5.K, op5.Lang = "check", UnsupportedLangs[rng.Intn(len(UnsupportedLangs))]
		pool = append(pool, op4, op5)
		pool = append(pool, op, op2, op3, plan.Op{K: "ent", Lang: l, Ent: hex.EncodeToString(rng.Bytes(16))})
		need := 16
		pool = append(pool, plan.Op{K: "new", Lang: l, N: 12, Dev: &plan.Dev{Seed: rng.Uint64(), Script: []plan.DevStep{{D: 5}, {D: 3}, {D: need - 8}}}})
	}
	// drop calls that are slow under the race detector in bulk: keep a few seeds only
	var out []plan.Op
	seeds := 0
	for _, op := range pool {
		if op.K == "seed" {
			seeds++
			if seeds > 12 {
				continue
			}
		}
		out = append(out, op)
	}
	return out
}

// genSchedPlan draws run i: workload and schedule policy (swarm style).
func genSchedPlan(seed uint64, pool []plan.Op, byLang map[int][]int, neutral []int, siteIDs []int) *schedPlan {
	r := plan.NewRand(seed)
	nt := r.Range(2, 8)
	if r.Intn(3) == 0 {
		nt = r.Range(2, 3)
	}
	focusN := []int{1, 1, 2, 2, 3, 10}[r.Intn(6)]
	perm := r.Perm(ref.NumLang)
	focus := append([]int(nil), perm[:focusN]...)
	sort.Ints(focus)
	var cand []int
	for _, l := range focus {
		cand = append(cand, byLang[l]...)
	}
	sp := &schedPlan{Focus: focus}
	if r.Intn(12) == 0 { // every language's table in one process: 5 tasks x 4 validations covering all ten twice
		sp.Focus = AllLangs
		lp := append(r.Perm(ref.NumLang), r.Perm(ref.NumLang)...)
		for t := 0; t < 5; t++ {
			var ops []plan.Op
			for k := 0; k < 4; k++ {
				c := byLang[lp[t*4+k]]
				for try := 0; try < 20; try++ {
					op := pool[c[r.Intn(len(c))]]
					if op.K == "check" || op.K == "valid" {
						ops = append(ops, op)
						break
					}
				}
			}
			sp.Tasks = append(sp.Tasks, ops)
		}
		nt = 0
	}
	newHeavy, gcPressure := false, false
	if nt > 0 && r.Intn(12) == 0 { // many callers inside NewMnemonic at once (bounded resources such as slot arenas, pools)
		var news []int
		for _, i := range cand {
			if pool[i].K == "new" && ref.ValidWordCount(pool[i].N) {
				news = append(news, i)
			}
		}
		if len(news) > 0 {
			n := r.Range(5, 8)
			if r.Intn(3) == 0 { // a crowd: more callers than any plausible fixed-size arena, semaphore or shard count
				n = r.Range(9, 40)
				if r.Intn(4) == 0 {
					n = r.Range(65, 100) // ... more than the bits of a word
				}
			}
			for t := 0; t < n; t++ {
				ops := []plan.Op{pool[news[r.Intn(len(news))]]}
				if r.Intn(3) == 0 {
					ops = append(ops, pool[news[r.Intn(len(news))]])
				}
				sp.Tasks = append(sp.Tasks, ops)
			}
			nt = 0
			newHeavy = true
		}
	}
	if nt > 0 && r.Intn(15) == 0 && len(neutral) > 0 { // overlapping MnemonicToSeed calls (slow under the detector: few and short)
		var seeds []int
		for _, i := range neutral {
			if pool[i].K == "seed" {
				seeds = append(seeds, i)
			}
		}
		if len(seeds) > 0 {
			same := pool[seeds[r.Intn(len(seeds))]] // the same derivation asked several times (memoising trees)
			twin := same
			if r.Intn(3) == 0 { // ... and a different derivation whose password||"mnemonic"||passphrase string coincides with it
				a, b := []string{"", " #", "x"}[r.Intn(3)], []string{"2", "", "TREZOR"}[r.Intn(3)]
				setP(&same, a+"mnemonic"+b)
				twin = same
				setM(&twin, same.Mnemonic()+"mnemonic"+a)
				setP(&twin, b)
			}
			for t := 0; t < r.Range(2, 3); t++ {
				ops := []plan.Op{same}
				if t%2 == 1 {
					ops[0] = twin
				}
				if r.Bool() {
					ops = append(ops, pool[seeds[r.Intn(len(seeds))]])
				}
				if r.Bool() {
					ops = append(ops, pool[cand[r.Intn(len(cand))]], same)
				}
				sp.Tasks = append(sp.Tasks, ops)
			}
			nt = 0
			gcPressure = true
		}
	}
	if nt > 0 && r.Intn(25) == 0 { // a crowd of callers with one cheap call each ("any number of goroutines")
		var cheap []int
		for _, i := range cand {
			if pool[i].K != "seed" {
				cheap = append(cheap, i)
			}
		}
		if len(cheap) > 0 {
			for t := 0; t < r.Range(12, 48); t++ {
				op := pool[cheap[r.Intn(len(cheap))]]
				op.Scribble, op.Cap = false, 0
				sp.Tasks = append(sp.Tasks, []plan.Op{op})
			}
			nt = 0
		}
	}
	for t := 0; t < nt; t++ {
		no := r.Range(1, 4)
		var ops []plan.Op
		for k := 0; k < no; k++ {
			var op plan.Op
			if r.Intn(8) == 0 && len(neutral) > 0 {
				op = pool[neutral[r.Intn(len(neutral))]]
			} else {
				op = pool[cand[r.Intn(len(cand))]]
			}
			op.Scribble, op.Cap = false, 0
			ops = append(ops, op)
		}
		sp.Tasks = append(sp.Tasks, ops)
	}
	if len(sp.Tasks) >= 2 && r.Intn(5) == 0 { // several callers pass windows of ONE caller-owned buffer (read-only sharing of input)
		for try := 0; try < 30; try++ {
			op := pool[cand[r.Intn(len(cand))]]
			if op.K != "ent" || op.Nil || len(op.Ent) < 32 {
				continue
			}
			sp.Shared = []string{op.Ent}
			for k := 0; k < r.Range(2, 4); k++ {
				o := op
				o.Shared, o.Cap, o.Scribble = 1, 0, false
				o.Lang = sp.Focus[r.Intn(len(sp.Focus))]
				t := r.Intn(len(sp.Tasks))
				at := r.Intn(len(sp.Tasks[t]) + 1)
				sp.Tasks[t] = append(sp.Tasks[t][:at], append([]plan.Op{o}, sp.Tasks[t][at:]...)...)
			}
			break
		}
	}
	if newHeavy || r.Intn(2) == 0 { // the default-configured process: devices are the OS reader itself, fault-free (fragmenting only)
		sp.Preinit = true
		for t := range sp.Tasks {
			for k := range sp.Tasks[t] {
				if op := &sp.Tasks[t][k]; op.K == "new" && op.Dev != nil {
					d := *op.Dev
					d.Script = nil
					for _, st := range op.Dev.Script {
						if st.E == "" && st.D > 0 {
							d.Script = append(d.Script, st)
						}
					}
					op.Dev = &d
				}
			}
		}
	}
	// a process that has been serving for a while: sequential calls by the main goroutine before the concurrent
	// callers start (state that only shows after N calls or N distinct inputs), possibly followed by idle time
	warmSeeds := false
	switch x := r.Intn(200); {
	case x == 0: // many distinct derivations first; then concurrent lookups of the earliest and the latest of them
		var base *plan.Op
		for _, i := range neutral {
			if pool[i].K == "seed" {
				base = &pool[i]
				break
			}
		}
		if base != nil {
			n := r.Range(130, 300)
			for i := 0; i < n; i++ {
				o := *base
				o.Scribble = false
				setP(&o, "w"+strconv.Itoa(i))
				sp.Warm = append(sp.Warm, o)
			}
			sp.Tasks = nil
			for t := 0; t < r.Range(3, 6); t++ {
				var ops []plan.Op
				for k := 0; k < r.Range(1, 3); k++ {
					i := r.Intn(n / 4)
					if r.Intn(4) == 0 {
						i = n - 1 - r.Intn(4)
					}
					ops = append(ops, sp.Warm[i])
				}
				sp.Tasks = append(sp.Tasks, ops)
			}
			sp.Shared = nil
			warmSeeds = true
		}
	case x < 3: // many cheap calls first
		for i := 0; i < r.Range(200, 3000); i++ {
			op := pool[cand[r.Intn(len(cand))]]
			if op.K == "new" || op.K == "seed" {
				continue
			}
			op.Scribble, op.Cap, op.Shared = false, 0, 0
			sp.Warm = append(sp.Warm, op)
		}
	case x < 12: // the tables of the languages in focus warm, then idle time (clock seam), then the concurrent callers
		for i := 0; i < r.Range(1, 6); i++ {
			op := pool[cand[r.Intn(len(cand))]]
			if op.K == "check" || op.K == "valid" {
				op.Scribble, op.Cap, op.Shared = false, 0, 0
				sp.Warm = append(sp.Warm, op)
			}
		}
		sp.WarmJump = JumpVals[r.Intn(len(JumpVals))]
	}
	sc := schedule{Mode: "policy", Seed: r.Uint64()}
	if warmSeeds {
		gcPressure = false
	}
	switch x := r.Intn(10); {
	case x < 4:
		sc.Policy = "walk"
		sc.MeanGap = []int{1, 5, 50, 500, 5000}[r.Intn(5)]
		sc.Stay = []float64{0, 0.5, 0.9}[r.Intn(3)]
	case x < 7:
		sc.Policy = "pct"
		sc.D = r.Range(1, 3)
		sc.EstSteps = int64(len(sp.Focus))*4200 + int64(len(sp.Tasks))*300
	case x < 9:
		sc.Policy = "walk"
		sc.MeanGap = 5000
		sc.Stay = 0.3
		for i := 0; i < r.Range(1, 6); i++ {
			sc.HotSites = append(sc.HotSites, siteIDs[r.Intn(len(siteIDs))])
		}
		sort.Ints(sc.HotSites)
	default:
		sc.Policy = "serial"
		sc.Order = r.Perm(len(sp.Tasks))
	}
	if gcPressure || r.Intn(20) == 0 { // memory pressure: GC cycles forced at seeded points of the schedule and after it
		for i := 0; i < r.Range(2, 6); i++ {
			sc.GCAt = append(sc.GCAt, r.Range(1, 400))
		}
		sort.Ints(sc.GCAt)
		sc.GCEnd = 3
		sc.GCStorm = gcPressure && r.Bool() // short seed-heavy runs only: a cycle before every grant
	}
	if newHeavy { // park every caller inside the device read before anybody gets its bytes
		sc.Policy, sc.MeanGap, sc.Stay, sc.Order, sc.D = "walk", 5000, 0, nil, 0
		sc.HotSites = []int{0}
	}
	if r.Intn(3) == 0 { // fault: a sync.Pool in the code under test drops what is Put into it
		sc.PoolSeed = r.Uint64() | 1
	}
	sp.Schedule = sc
	if r.Intn(5) == 0 { // the size of the machine as seen by the runtime
		sp.GoMaxProcs = []int{1, 2, 8, 16}[r.Intn(4)]
	}
	return sp
}

// CheckC12 - seeded schedules of concurrent callers from a cold start.
func CheckC12(e *Env) (int, error) {
	g, rep, err := buildC12(e)
	if err != nil {
		return 2, err
	}
	e.Logf("C12: instrumented %d yield sites, sync rewritten in %v, unmodelled constructs: %v", len(rep.Sites), rep.SyncFiles, rep.Unmodelled)
	thorough := e.Tier == "thorough"
	// a fixed number of runs (so that one VERIF_SEED is one repeatable batch), with a wall-clock cap as a safety net
	budget := time.Duration(envInt("VERIF_C12_SECONDS", 240)) * time.Second
	maxRuns := envInt("VERIF_C12_RUNS", 8000)
	if thorough {
		budget = time.Duration(envInt("VERIF_C12_SECONDS", 5400)) * time.Second
		maxRuns = envInt("VERIF_C12_RUNS", 400000)
	}
	rng := plan.NewRand(plan.Derive(e.Seed, "C12/pool", 0))
	pool := c12Pool(rng, 300)
	if err := g.solo.All(pool); err != nil {
		return 2, err
	}
	e.Logf("C12: pool of %d calls solo-oracled in %d fresh processes", len(pool), g.solo.Procs)
	byLang := map[int][]int{}
	var neutral []int
	for i, op := range pool {
		if op.K == "seed" || !ref.Supported(op.Lang) {
			neutral = append(neutral, i)
			continue
		}
		byLang[op.Lang] = append(byLang[op.Lang], i)
	}
	var siteIDs []int
	for _, s := range rep.Sites {
		siteIDs = append(siteIDs, s.ID)
	}
	var mu sync.Mutex
	var viols []*Violation
	var trouble error
	runs, nontrivial := 0, 0
	digests := map[string]bool{}
	ntDigests := map[string]bool{}
	var tot schedStats
	siteHit := map[string]bool{}
	switchSite := map[string]bool{}
	tagSwitch := map[string]int{}
	inconclusive := map[string]int{}
	policies := map[string]int{}
	warmRuns, warmCalls, idleRuns := 0, 0, 0
	envNames, envOpaque := instr.EnvNames(e.RepoCopy())
	envVals := append([]string{"1", "true", "0", "C", "ja_JP.UTF-8", "en_US.UTF-8"}, instr.EnvValueCandidates(e.RepoCopy())...)
	envRuns := 0
	probes := map[string]int{}
	tolerated := 0
	var samples []interface{}
	var od OrderedDigest
	auditPairs, auditMismatch := 0, 0
	explicitPairs, explicitMismatch := 0, 0
	var auditDetail string
	deadline := time.Now().Add(budget)
	stop := false
	next := 0
	var wg sync.WaitGroup
	worker := func() {
		defer wg.Done()
		for {
			mu.Lock()
			incl := 0
			for _, c := range inconclusive {
				incl += c
			}
			if stop || next >= maxRuns || time.Now().After(deadline) || len(viols) >= 12 || incl >= 4 {
				mu.Unlock()
				return
			}
			i := next
			next++
			mu.Unlock()
			sp := genSchedPlan(plan.Derive(e.Seed, "C12/run", uint64(i)), pool, byLang, neutral, siteIDs)
			if len(envNames) > 0 && i%8 == 3 { // the environment is no argument: one variable the tree is seen to read, set
				k := i / 8
				sp.Env = []string{envNames[k%len(envNames)] + "=" + envVals[(k/len(envNames))%len(envVals)]}
				envRuns++
			}
			out, v, err := g.runPlan(sp)
			// determinism audit on a sample: same plan under another GOMAXPROCS, and the
			// recorded explicit schedule, must give the identical run digest
			var a1, a2 *schedOut
			var ex *schedPlan
			if err == nil && v == nil && out != nil && i%40 == 0 {
				a1, _, _ = g.runPlan(sp, "GOMAXPROCS="+[]string{"1", "16", "2"}[(i/40)%3])
				if i%80 == 0 {
					if ex, _ = g.explicitOf(sp); ex != nil {
						a2, _, _ = g.runPlan(ex, "GOMAXPROCS=16")
					}
				}
			}
			mu.Lock()
			if err != nil {
				if trouble == nil {
					trouble = err
				}
				stop = true
				mu.Unlock()
				return
			}
			runs++
			pol := sp.Schedule.Policy
			if len(sp.Schedule.HotSites) > 0 {
				pol = "hot-sites"
			}
			policies[pol]++
			if len(sp.Warm) > 0 {
				warmRuns++
				warmCalls += len(sp.Warm)
			}
			if sp.WarmJump != 0 {
				idleRuns++
			}
			if v != nil && v.Inconclusive != "" {
				inconclusive[v.Inconclusive]++
				nops := 0
				for _, t := range sp.Tasks {
					nops += len(t)
				}
				e.Logf("C12: inconclusive run %d (%s): %d tasks, %d calls, %d warm-up calls, schedule %s", i, v.Inconclusive, len(sp.Tasks), nops, len(sp.Warm), mustJSON(sp.Schedule))
			} else if v != nil {
				viols = append(viols, g.violation(sp, v))
			}
			if out != nil && (v == nil || v.Class != "") {
				st := out.Stats
				tot.Events += st.Events
				tot.Grants += st.Grants
				tot.Switches += st.Switches
				tot.Steps += st.Steps
				tot.BlockedOnOnce += st.BlockedOnOnce
				tot.BlockedOnLock += st.BlockedOnLock
				tot.OnceBuilt += st.OnceBuilt
				tot.OnceMultiEnter += st.OnceMultiEnter
				tot.PreemptInBuild += st.PreemptInBuild
				tot.OtherStepsInBuild += st.OtherStepsInBuild
				tot.LockAcquires += st.LockAcquires
				tot.CondWaits += st.CondWaits
				tot.PoolDrops += st.PoolDrops
				tot.ForcedGC += st.ForcedGC
				if out.Foreign > 0 {
					probes["runs_with_unscheduled_goroutines_of_the_library"]++
				}
				digests[out.Digest] = true
				od.Add(i, strDigest(out.Digest))
				nt := (st.OnceMultiEnter >= 1 && (st.PreemptInBuild >= 1 || st.BlockedOnOnce >= 1)) || st.BlockedOnLock >= 1
				if nt {
					nontrivial++
					ntDigests[out.Digest] = true
				}
				for s := range out.SiteHits {
					siteHit[s] = true
				}
				for s, c := range out.SwitchSites {
					switchSite[s] = true
					id, _ := strconv.Atoi(s)
					if tag := g.sites[id].Tag; tag != "" {
						tagSwitch[tag] += c
					}
					if id == 0 {
						tagSwitch["device-read"] += c
					}
				}
				if len(sp.Shared) > 0 {
					probes["runs_with_a_caller_buffer_shared_by_several_tasks"]++
				}
				if sp.Preinit && g.binCold != "" && atomic.LoadInt32(&g.noCold) == 0 {
					probes["runs_in_the_default_configured_process_preinit_seam"]++
				}
				if st.BlockedOnOnce > 0 {
					probes["task_blocked_on_running_once"]++
				}
				if st.OtherStepsInBuild > 0 {
					probes["other_task_ran_while_a_table_was_under_construction"]++
				}
				if st.OnceMultiEnter > 0 {
					probes["two_first_uses_of_one_language"]++
				}
				if st.PreemptInBuild > 0 {
					probes["preempted_inside_the_fill_loop"]++
				}
				if st.OnceBuilt >= 10 {
					probes["all_ten_tables_built_in_one_process"]++
				}
				// NewMnemonic reads of two tasks interleaved: A .. B .. A in the device order
				last := map[int]int{}
				inter := false
				for idx, t := range out.DevOrder {
					if p, ok := last[t]; ok && idx-p > 1 {
						inter = true
					}
					last[t] = idx
				}
				if inter {
					probes["newmnemonic_reads_of_two_tasks_interleaved"]++
				}
				if len(samples) < 4 && i%53 == 0 {
					samples = append(samples, map[string]interface{}{"plan": sp, "digest": out.Digest, "stats": out.Stats})
				}
				if a1 != nil {
					auditPairs++
					if a1.Digest != out.Digest {
						auditMismatch++
						auditDetail = fmt.Sprintf("run %d: digest %s vs %s under another GOMAXPROCS", i, out.Digest, a1.Digest)
					}
				}
				if a2 != nil {
					explicitPairs++
					if a2.Digest != out.Digest {
						explicitMismatch++
						auditDetail = fmt.Sprintf("run %d: digest %s under the policy vs %s under its recorded explicit schedule", i, out.Digest, a2.Digest)
					}
				}
			}
			mu.Unlock()
		}
	}
	for k := 0; k < e.Jobs; k++ {
		wg.Add(1)
		go worker()
	}
	wg.Wait()
	if trouble != nil {
		return 2, trouble
	}
	_ = tolerated
	code, reported := e.Report("C12", viols, g)
	for _, p := range []string{"task_blocked_on_running_once", "other_task_ran_while_a_table_was_under_construction", "two_first_uses_of_one_language", "preempted_inside_the_fill_loop", "all_ten_tables_built_in_one_process", "newmnemonic_reads_of_two_tasks_interleaved"} {
		if probes[p] == 0 {
			fmt.Printf("PROBE-ZERO C12: %s\n", p)
		}
	}
	if tagSwitch["after-once-do"] == 0 {
		fmt.Println("PROBE-ZERO C12: preemption between Do returning and the map read")
	}
	cov := map[string]interface{}{
		"evaluations":                            runs,
		"distinct_nontrivial":                    len(ntDigests),
		"rule":                                   "a case = one fresh race-built process running 2-8 caller goroutines x 1-4 calls under one seeded schedule (random walk with mean gap 1..5000, PCT with 1-3 priority change points, hot-site preemption, or serial), preemption possible before every statement of package bip39, at every sync.Once/lock operation and at every read of the simulated device. Non-trivial: >= 2 tasks entered the same language's sync.Once and a task was preempted inside the table construction or blocked on the running Once (or, for lock-based trees, a task blocked on a held lock). Distinct: by run digest (every (task, site) step, every scheduler event, every outcome).",
		"exhaustive":                             false,
		"samples":                                samples,
		"runs":                                   runs,
		"nontrivial_runs":                        nontrivial,
		"distinct_schedules":                     len(digests),
		"sim_steps_total":                        tot.Steps,
		"sim_time_note":                          "the unchanged tree reads no clock, so simulated time is counted in scheduler steps (statement-level yields); a tree that imports \"time\" gets Now/Since/Until from the clock seam, which the simulator moves forward in jumps (an idle period between the sequential warm-up calls and the concurrent callers)",
		"clock_seam_files":                       e.ClockFiles("irepo"),
		"environment_variables_read_by_the_tree": envNames,
		"environment_reads_with_opaque_names":    envOpaque,
		"runs_with_environment_set":              envRuns,
		"runs_with_sequential_warm_up":           warmRuns,
		"warm_up_calls_total":                    warmCalls,
		"runs_with_simulated_idle_time":          idleRuns,
		"scheduler_totals":                       tot,
		"policies":                               policies,
		"yield_sites":                            len(rep.Sites),
		"yield_sites_executed":                   len(siteHit),
		"yield_sites_where_a_switch_was_decided": len(switchSite),
		"switches_by_site_tag":                   tagSwitch,
		"probes":                                 probes,
		"faults_fired":                           map[string]int{"preemptions": tot.Switches, "blocked_on_once": tot.BlockedOnOnce, "preempted_inside_build": tot.PreemptInBuild},
		"inconclusive_runs":                      inconclusive,
		"audit":                                  map[string]interface{}{"gomaxprocs_pairs": auditPairs, "gomaxprocs_mismatches": auditMismatch, "explicit_replay_pairs": explicitPairs, "explicit_replay_mismatches": explicitMismatch},
		"solo_oracle_processes":                  g.solo.Procs,
		"unmodelled_constructs":                  rep.Unmodelled,
		"raw_violations":                         len(viols),
		"outcome_digest":                         od.String(),
		"run_budget":                             map[string]interface{}{"runs_requested": maxRuns, "wall_cap_s": budget.Seconds(), "stopped_by_wall_cap": runs < maxRuns && len(viols) < 12},
		"bounds":                                 "2-8 tasks x 1-4 calls (4% of runs: a crowd of 9-48 tasks x 1 call; of the NewMnemonic-heavy runs a third park 9-40 and a twelfth 65-100 callers inside the device read; a fifth of all runs start with GOMAXPROCS 1, 2, 8 or 16 instead of 4), <= 2e6 steps, no preemption inside standard-library or x/ calls (races there are still detected: detection is happens-before based)",
	}
	if err := e.WriteEvidence("C12", "exploration", cov, []string{
		"the Go race detector is sound for what it reports and incomplete (bounded shadow history)",
		"token hand-off through raw pipe syscalls in //go:norace code adds no happens-before edge the detector can see",
		"the sync shim operates the real sync.Once/Mutex objects, so the detector sees the shipped code's own edges",
		"solo oracle: the call alone in a fresh process of the same tree (plain build)",
	}, reported); err != nil {
		return 2, err
	}
	e.Logf("C12: %d runs, %d non-trivial (%d distinct), %d raw violations, inconclusive %v, audit %d/%d pairs ok", runs, nontrivial, len(ntDigests), len(viols), inconclusive, auditPairs-auditMismatch+explicitPairs-explicitMismatch, auditPairs+explicitPairs)
	if auditMismatch+explicitMismatch > 0 {
		if g.unmodelled {
			fmt.Printf("AUDIT-NOT-APPLICABLE C12: this tree has concurrency of its own that the simulator does not schedule (%v); %d of %d audited runs differed, which is expected there. Race reports and divergences remain valid observations; schedules are only partly controlled.\n", rep.Unmodelled, auditMismatch+explicitMismatch, auditPairs+explicitPairs)
		} else {
			fmt.Printf("AUDIT-FAILED C12: %s\n", auditDetail)
			if code == 0 {
				code = 2
			}
		}
	}
	incl := 0
	for _, c := range inconclusive {
		incl += c
	}
	if incl > 0 {
		fmt.Printf("INCONCLUSIVE C12: %v\n", inconclusive)
		if code == 0 && incl*20 > runs {
			code = 2
		}
	}
	return code, nil
}
