package drv

import (
	"encoding/json"
	"fmt"
	"go/ast"
	"go/parser"
	"go/token"
	"go/types"
	"os"
	"path/filepath"
	"sort"
	"strconv"
	"strings"
	"sync"
	"time"
	"unicode"

	"a0verif/instr"
	"a0verif/plan"
	"a0verif/ref"
)

// toolInput is the upstream file of one language.
type toolInput struct {
	Lines    []string `json:"lines"`             // the file is Lines joined by \n
	Trailing bool     `json:"trailing_newline"`  // ... plus a final \n
	Missing  bool     `json:"missing,omitempty"` // fault run: the upstream has no such file (no verdict)
}

func (t *toolInput) bytes() []byte {
	s := strings.Join(t.Lines, "\n")
	if t.Trailing {
		s += "\n"
	}
	return []byte(s)
}

func (t *toolInput) expected() []string {
	var w []string
	for _, l := range t.Lines {
		if l != "" {
			w = append(w, l)
		}
	}
	return w
}

type toolPlan struct {
	Inputs    map[string]*toolInput `json:"inputs"`   // by upstream file name (english, ...)
	Prestate  map[string]string     `json:"prestate"` // absent | longer | shorter | junk | readonly
	OrderSeed uint64                `json:"order_seed"`
	// Strays: leftovers of an earlier run that was killed between writing and renaming - files next to the
	// targets under the temporary names such tools use; each holds a much longer stale file
	Strays    []string `json:"strays,omitempty"`
	FragSeed  uint64   `json:"frag_seed,omitempty"` // != 0: response bodies arrive in seeded short reads, the last one possibly with io.EOF
	Canonical bool     `json:"canonical,omitempty"`
	NoDir     bool     `json:"no_dir,omitempty"` // fault run: target directory missing (no verdict)
	Env       []string `json:"env,omitempty"`    // additions to the tool's process environment (variables it is seen to read)
	// GoMaxProcs: the size of the machine as the tool's runtime sees it (0 = inherited)
	GoMaxProcs int `json:"gomaxprocs,omitempty"`
	// NoLen: responses carry no length (as compressed or chunked deliveries do)
	NoLen bool `json:"no_len,omitempty"`
	// File times are part of the simulated disk: UpMtime (unix seconds, 0 = whatever the wall clock gives) is the
	// modification time of every upstream file (the transport announces it as Last-Modified); PreDelta is added to
	// it for everything that exists in the target directory before the run (older, equal or newer than upstream).
	UpMtime  int64 `json:"up_mtime,omitempty"`
	PreDelta int64 `json:"pre_delta,omitempty"`
}

func (p *toolPlan) faultRun() bool {
	if p.NoDir {
		return true
	}
	for _, in := range p.Inputs {
		if in.Missing {
			return true
		}
	}
	for _, s := range p.Prestate {
		if s == "readonly" {
			return true
		}
	}
	return false
}

type c17Engine struct {
	e         *Env
	bin       string
	committed map[string][]string // lists committed in the working tree, by file name
}

type toolVerdict struct {
	Class, Key, Detail, Lang string
}

// parseList parses a generated file and returns the variable name and the list.
func parseList(path string) (string, []string, error) {
	src, err := os.ReadFile(path)
	if err != nil {
		return "", nil, err
	}
	fset := token.NewFileSet()
	f, err := parser.ParseFile(fset, path, src, 0)
	if err != nil {
		return "", nil, fmt.Errorf("does not parse: %v", err)
	}
	if _, err := (&types.Config{}).Check("wordlist", fset, []*ast.File{f}, nil); err != nil {
		return "", nil, fmt.Errorf("does not type-check: %v", err)
	}
	if f.Name.Name != "wordlist" {
		return "", nil, fmt.Errorf("package %s, want wordlist", f.Name.Name)
	}
	if len(f.Decls) != 1 {
		return "", nil, fmt.Errorf("%d declarations, want exactly one", len(f.Decls))
	}
	gd, ok := f.Decls[0].(*ast.GenDecl)
	if !ok || gd.Tok != token.VAR || len(gd.Specs) != 1 {
		return "", nil, fmt.Errorf("the declaration is not a single var")
	}
	vs := gd.Specs[0].(*ast.ValueSpec)
	if len(vs.Names) != 1 || len(vs.Values) != 1 {
		return "", nil, fmt.Errorf("the var declaration has %d names / %d values", len(vs.Names), len(vs.Values))
	}
	cl, ok := vs.Values[0].(*ast.CompositeLit)
	if !ok {
		return "", nil, fmt.Errorf("the value is not a composite literal")
	}
	at, ok := cl.Type.(*ast.ArrayType)
	if !ok || at.Len != nil {
		return "", nil, fmt.Errorf("the value is not a slice literal")
	}
	if id, ok := at.Elt.(*ast.Ident); !ok || id.Name != "string" {
		return "", nil, fmt.Errorf("the value is not a []string literal")
	}
	var words []string
	for _, el := range cl.Elts {
		bl, ok := el.(*ast.BasicLit)
		if !ok || bl.Kind != token.STRING {
			return "", nil, fmt.Errorf("an element is not a string literal")
		}
		s, err := strconv.Unquote(bl.Value)
		if err != nil {
			return "", nil, err
		}
		words = append(words, s)
	}
	return vs.Names[0].Name, words, nil
}

func prestateContent(kind string) []byte {
	switch kind {
	case "longer":
		var b strings.Builder
		b.WriteString("// Code generated earlier; DO NOT EDIT.\n\npackage wordlist\n\nvar Stale = []string{\n")
		for i := 0; i < 9000; i++ {
			fmt.Fprintf(&b, "\t\"stale%05d\",\n", i)
		}
		b.WriteString("}\n")
		return []byte(b.String())
	case "shorter":
		return []byte("package wordlist\n")
	case "junk":
		return []byte(strings.Repeat("\x00\xff not go at all }}} \"\n", 4000))
	}
	return nil
}

func sameList(a, b []string) int {
	for i := 0; i < len(a) && i < len(b); i++ {
		if a[i] != b[i] {
			return i
		}
	}
	if len(a) != len(b) {
		if len(a) < len(b) {
			return len(a)
		}
		return len(b)
	}
	return -1
}

// run executes the tool once on the simulated upstream and disk and judges it.
func (g *c17Engine) run(tp *toolPlan) (*toolVerdict, map[string]int, error) {
	d := g.e.JobDir()
	defer func() {
		filepath.Walk(d, func(p string, info os.FileInfo, err error) error {
			if err == nil {
				os.Chmod(p, 0755)
			}
			return nil
		})
		os.RemoveAll(d)
	}()
	up := filepath.Join(d, "up", "bitcoin", "bips", "master", "bip-0039")
	work := filepath.Join(d, "work")
	wl := filepath.Join(work, "internal", "wordlist")
	os.MkdirAll(up, 0755)
	os.MkdirAll(work, 0755)
	if !tp.NoDir {
		os.MkdirAll(wl, 0755)
	}
	stats := map[string]int{}
	stamp := func(p string, delta int64) {
		if tp.UpMtime != 0 {
			t := time.Unix(tp.UpMtime+delta, 0)
			os.Chtimes(p, t, t) // follows a symbolic link; a dangling one has nothing to stamp
		}
	}
	if tp.UpMtime != 0 {
		stats["runs_with_seeded_file_times"]++
		switch {
		case tp.PreDelta > 0:
			stats["runs_with_targets_newer_than_upstream"]++
		case tp.PreDelta < 0:
			stats["runs_with_targets_older_than_upstream"]++
		}
	}
	for l := 0; l < ref.NumLang; l++ {
		name := ref.FileNames[l]
		in := tp.Inputs[name]
		if in == nil {
			return nil, nil, Troublef("plan without input for %s", name)
		}
		if !in.Missing {
			if err := os.WriteFile(filepath.Join(up, name+".txt"), in.bytes(), 0644); err != nil {
				return nil, nil, err
			}
			stamp(filepath.Join(up, name+".txt"), 0)
		}
		if tp.NoDir {
			continue
		}
		kind := tp.Prestate[name]
		stats["prestate_"+kind]++
		tgt := filepath.Join(wl, name+".go")
		switch kind {
		case "", "absent":
		case "readonly":
			os.WriteFile(tgt, []byte("package wordlist\n"), 0444)
		case "symlink-rel", "symlink-abs", "symlink-dangling":
			// the target is a symbolic link into a sibling directory (a longer stale file there, or nothing yet):
			// the shipped tool writes through it; whatever a rewrite does, the path must afterwards hold the list
			gen := filepath.Join(work, "internal", "generated")
			os.MkdirAll(gen, 0755)
			real := filepath.Join(gen, name+".go")
			if kind != "symlink-dangling" {
				os.WriteFile(real, prestateContent("longer"), 0644)
			}
			link := "../generated/" + name + ".go"
			if kind == "symlink-abs" {
				link = real
			}
			os.Symlink(link, tgt)
		default:
			os.WriteFile(tgt, prestateContent(kind), 0644)
		}
		if kind != "" && kind != "absent" {
			stamp(tgt, tp.PreDelta)
		}
	}
	strays := map[string]bool{}
	if !tp.NoDir {
		for _, sname := range tp.Strays {
			strays[sname] = true
			os.WriteFile(filepath.Join(wl, sname), prestateContent("longer"), 0644)
			stamp(filepath.Join(wl, sname), tp.PreDelta)
			stats["stray_leftover_files"]++
		}
	}
	env := []string{"BIP39_VERIF_UPSTREAM=" + filepath.Join(d, "up"), "ZZSIM_ORDER_SEED=" + strconv.FormatUint(tp.OrderSeed, 10)}
	if tp.FragSeed != 0 {
		env = append(env, "BIP39_VERIF_FRAG="+strconv.FormatUint(tp.FragSeed, 10))
		stats["runs_with_fragmented_bodies"]++
	}
	if tp.NoLen {
		env = append(env, "BIP39_VERIF_NOLEN=1")
		stats["runs_with_responses_of_unknown_length"]++
	}
	if tp.GoMaxProcs > 0 {
		env = append(env, "GOMAXPROCS="+strconv.Itoa(tp.GoMaxProcs))
		stats["runs_with_seeded_gomaxprocs"]++
	}
	if len(tp.Env) > 0 {
		env = append(env, tp.Env...)
		stats["runs_with_environment_set"]++
	}
	p := g.e.RunProc(120*time.Second, env, work, g.bin)
	if tp.faultRun() {
		stats["fault_runs_no_verdict"]++
		if p.Exit != 0 {
			stats["fault_runs_tool_failed"]++
		}
		return nil, stats, nil
	}
	if p.TimedOut {
		return &toolVerdict{Class: "hang", Key: "hang", Detail: "the tool did not finish within 120 s"}, stats, nil
	}
	if p.Exit != 0 {
		for _, sign := range []string{"dial tcp", "no such host", "connection refused", "network is unreachable", "proxyconnect", "lookup raw.githubusercontent.com", "Temporary failure in name resolution"} {
			if strings.Contains(p.Stderr, sign) {
				// the tool tried the real network: it does not fetch through http.DefaultTransport any more,
				// so the simulated upstream cannot reach it - nothing can be decided, and nothing is alleged
				return nil, nil, Troublef("SEAM-BYPASSED: the tool did not fetch through http.DefaultTransport (%s); C17 cannot be decided for this tree by simulation", firstLine(p.Stderr))
			}
		}
		return &toolVerdict{Class: "exit", Key: "exit", Detail: fmt.Sprintf("the tool failed (exit %d) on delivered upstream files: %s", p.Exit, tail(p.Stderr, 4))}, stats, nil
	}
	ents, _ := os.ReadDir(wl)
	want := map[string]bool{}
	for l := 0; l < ref.NumLang; l++ {
		want[ref.FileNames[l]+".go"] = true
	}
	for _, en := range ents {
		if !want[en.Name()] && !strays[en.Name()] && !strings.HasSuffix(en.Name(), ".go") {
			stats["other_files_left_in_the_directory_not_go_sources"]++ // e.g. a backup copy: not part of the package, the statement does not forbid it
			continue
		}
		if !want[en.Name()] && !strays[en.Name()] {
			return &toolVerdict{Class: "extra-file", Key: "extra-file/" + en.Name(), Detail: "unexpected file " + en.Name() + " in internal/wordlist"}, stats, nil
		}
	}
	for l := 0; l < ref.NumLang; l++ {
		name := ref.FileNames[l]
		in := tp.Inputs[name]
		exp := in.expected()
		v, words, err := parseList(filepath.Join(wl, name+".go"))
		if err != nil {
			return &toolVerdict{Class: "nocompile", Lang: name, Key: "nocompile/" + name, Detail: fmt.Sprintf("%s.go: %v (pre-existing file: %s)", name, err, tp.Prestate[name])}, stats, nil
		}
		if v != ref.VarNames[l] {
			return &toolVerdict{Class: "mismap", Lang: name, Key: "mismap/" + name, Detail: fmt.Sprintf("%s.go declares %s, want %s", name, v, ref.VarNames[l])}, stats, nil
		}
		if i := sameList(words, exp); i >= 0 {
			got, wnt := "<end>", "<end>"
			if i < len(words) {
				got = strconv.QuoteToASCII(words[i])
			}
			if i < len(exp) {
				wnt = strconv.QuoteToASCII(exp[i])
			}
			// whose content is it, if any other language's?
			for l2 := 0; l2 < ref.NumLang; l2++ {
				if l2 != l && sameList(words, tp.Inputs[ref.FileNames[l2]].expected()) < 0 {
					return &toolVerdict{Class: "mismap", Lang: name, Key: "mismap/" + name, Detail: fmt.Sprintf("%s.go holds the content of %s.txt", name, ref.FileNames[l2])}, stats, nil
				}
			}
			return &toolVerdict{Class: "content", Lang: name, Key: "content/" + name, Detail: fmt.Sprintf("%s.go: list has %d entries, the input has %d non-empty lines; first difference at entry %d: got %s, want %s", name, len(words), len(exp), i, got, wnt)}, stats, nil
		}
		if tp.Canonical {
			if i := sameList(words, g.committed[name]); i >= 0 {
				return &toolVerdict{Class: "canonical", Lang: name, Key: "canonical/" + name, Detail: fmt.Sprintf("run on the canonical %s.txt the tool does not reproduce the committed list (first difference at entry %d)", name, i)}, stats, nil
			}
			stats["canonical_lists_reproduced"]++
		}
		stats["lists_verified"]++
		stats["words_verified"] += len(words)
		stats["zz_digest"] ^= int(strDigest(strings.Join(words, "\n"))>>1) + l
		if tp.Prestate[name] == "longer" {
			stats["truncation_needed_and_happened"]++
		}
	}
	return nil, stats, nil
}

func toToolPlan(pl interface{}) (*toolPlan, error) {
	var tp toolPlan
	b, err := json.Marshal(pl)
	if err != nil {
		return nil, err
	}
	return &tp, json.Unmarshal(b, &tp)
}

func (g *c17Engine) violation(tp *toolPlan, v *toolVerdict) *Violation {
	return &Violation{Property: "C17", Class: v.Class, Key: v.Key, Detail: v.Detail, Engine: "toolsim", Plan: tp}
}

func (g *c17Engine) Reproduce(pl interface{}) (*Violation, error) {
	tp, err := toToolPlan(pl)
	if err != nil {
		return nil, err
	}
	v, _, err := g.run(tp)
	if err != nil || v == nil {
		return nil, err
	}
	return g.violation(tp, v), nil
}

func (g *c17Engine) Minimise(v *Violation) *Violation {
	tp, err := toToolPlan(v.Plan)
	if err != nil {
		return v
	}
	first, _, _ := g.run(tp)
	if first == nil {
		return v
	}
	same := func(t *toolPlan) bool {
		got, _, err := g.run(t)
		return err == nil && got != nil && got.Class == first.Class
	}
	cp := func(t *toolPlan) *toolPlan {
		c := *t
		c.Inputs = map[string]*toolInput{}
		for k, in := range t.Inputs {
			x := *in
			c.Inputs[k] = &x
		}
		c.Prestate = map[string]string{}
		for k, s := range t.Prestate {
			c.Prestate[k] = s
		}
		return &c
	}
	cur := cp(tp)
	// other languages: a one-word file, no pre-existing file
	for l := 0; l < ref.NumLang; l++ {
		name := ref.FileNames[l]
		if name == first.Lang {
			continue
		}
		c := cp(cur)
		c.Inputs[name] = &toolInput{Lines: []string{"w" + strings.Repeat("x", l)}, Trailing: true}
		c.Prestate[name] = "absent"
		c.Canonical = cur.Canonical && false
		if same(c) {
			cur = c
		}
	}
	if first.Lang != "" {
		lines := cur.Inputs[first.Lang].Lines
		keep := DDMin(len(lines), func(k []int) bool {
			c := cp(cur)
			in := &toolInput{Trailing: cur.Inputs[first.Lang].Trailing}
			for _, i := range k {
				in.Lines = append(in.Lines, lines[i])
			}
			c.Inputs[first.Lang] = in
			return same(c)
		}, 200, 60*time.Second)
		c := cp(cur)
		in := &toolInput{Trailing: cur.Inputs[first.Lang].Trailing}
		for _, i := range keep {
			in.Lines = append(in.Lines, lines[i])
		}
		c.Inputs[first.Lang] = in
		if same(c) {
			cur = c
		}
	}
	got, _, err := g.run(cur)
	if err != nil || got == nil || got.Class != first.Class {
		return v
	}
	return g.violation(cur, got)
}

// --- input generation: words made only of letters (L*) and marks (M*) ---

type alphabet struct {
	name  string
	base  []rune
	marks []rune
}

func runesRange(lo, hi rune) []rune {
	var r []rune
	for c := lo; c <= hi; c++ {
		if unicode.IsLetter(c) {
			r = append(r, c)
		}
	}
	return r
}

var alphabets = []alphabet{
	{"latin", runesRange('a', 'z'), nil},
	{"latin-nfd", runesRange('a', 'z'), []rune{0x0301, 0x0300, 0x0302, 0x0308, 0x0303, 0x0327, 0x030C}},
	{"latin-precomposed", append(runesRange('a', 'z'), runesRange(0x00E0, 0x00FF)...), nil},
	{"latin-upper", append(runesRange('A', 'Z'), runesRange('a', 'z')...), nil},
	{"hiragana-nfkd", runesRange(0x3041, 0x3096), []rune{0x3099, 0x309A}},
	{"katakana", runesRange(0x30A1, 0x30FA), []rune{0x3099}},
	{"hangul-jamo", append(append(runesRange(0x1100, 0x1112), runesRange(0x1161, 0x1175)...), runesRange(0x11A8, 0x11C2)...), nil},
	{"hangul-syllables", runesRange(0xAC00, 0xAC00+800), nil},
	{"cjk", runesRange(0x4E00, 0x4E00+3000), nil},
	{"cyrillic", runesRange(0x0430, 0x044F), []rune{0x0301}},
	{"greek", runesRange(0x03B1, 0x03C9), []rune{0x0301, 0x0342}},
	{"devanagari", runesRange(0x0915, 0x0939), []rune{0x093E, 0x093F, 0x0941, 0x094D}},
	{"arabic", runesRange(0x0627, 0x064A), []rune{0x064B, 0x0651}},
	{"astral", runesRange(0x10400, 0x1044F), nil},
	{"modifier-letters", append(runesRange(0x02B0, 0x02C1), runesRange('a', 'z')...), nil},                    // Lm
	{"titlecase", append([]rune{0x01C5, 0x01C8, 0x01CB, 0x01F2}, runesRange('a', 'z')...), nil},               // Lt
	{"enclosing-marks", runesRange('a', 'z'), []rune{0x20DD, 0x20DE, 0x20E0, 0x0488}},                         // Me
	{"thai", runesRange(0x0E01, 0x0E2E), []rune{0x0E31, 0x0E34, 0x0E47, 0x0E48}},                              // Lo + Mn
	{"hebrew-points", runesRange(0x05D0, 0x05EA), []rune{0x05B0, 0x05B8, 0x05BC, 0x05C1}},                     // RTL + Mn
	{"compat-forms", append(runesRange(0xFF41, 0xFF5A), 0xFB01, 0xFB02, 0x2126, 0x212B, 0x00B5, 0x017F), nil}, // letters that NFKC/NFKD would rewrite
}

func genWord(r *plan.Rand, a *alphabet) string {
	n := r.Range(1, 9)
	switch r.Intn(20) {
	case 0:
		n = 1
	case 1:
		n = 60
	case 2:
		if r.Intn(4) == 0 {
			n = 300
		}
	}
	var b []rune
	for i := 0; i < n; i++ {
		b = append(b, a.base[r.Intn(len(a.base))])
		if len(a.marks) > 0 && r.Intn(3) == 0 {
			b = append(b, a.marks[r.Intn(len(a.marks))])
			if r.Intn(6) == 0 {
				b = append(b, a.marks[r.Intn(len(a.marks))])
			}
		}
	}
	if len(a.marks) > 0 && r.Intn(25) == 0 { // a word that begins with a combining mark
		b = append([]rune{a.marks[0]}, b...)
	}
	return string(b)
}

func genInput(r *plan.Rand, huge bool) *toolInput {
	a := &alphabets[r.Intn(len(alphabets))]
	n := []int{0, 1, 2, 3, 10, 100, 2048, 2048, 2049, 5000}[r.Intn(10)]
	if huge { // "any length": far beyond the real lists (> 1 MiB, > 64 Ki lines)
		n = []int{70000, 140000, 260000}[r.Intn(3)]
	}
	if r.Intn(3) == 0 && !huge {
		n = r.Range(0, 40)
	}
	in := &toolInput{Trailing: r.Intn(3) != 0}
	for i := 0; i < n; i++ {
		if len(in.Lines) > 0 && r.Intn(30) == 0 {
			in.Lines = append(in.Lines, in.Lines[r.Intn(len(in.Lines))]) // duplicate word
			continue
		}
		in.Lines = append(in.Lines, genWord(r, a))
	}
	// blank lines at the start, in the middle, at the end
	ins := func(at int) {
		in.Lines = append(in.Lines[:at], append([]string{""}, in.Lines[at:]...)...)
	}
	if r.Intn(4) == 0 {
		ins(0)
	}
	if r.Intn(4) == 0 && len(in.Lines) > 1 {
		ins(r.Range(1, len(in.Lines)-1))
	}
	if r.Intn(4) == 0 {
		ins(len(in.Lines))
		if r.Intn(2) == 0 {
			ins(len(in.Lines))
		}
	}
	return in
}

func canonicalInput(l int) *toolInput {
	raw := string(ref.Raw(l))
	lines := strings.Split(raw, "\n")
	trailing := false
	if lines[len(lines)-1] == "" {
		lines = lines[:len(lines)-1]
		trailing = true
	}
	return &toolInput{Lines: lines, Trailing: trailing}
}

func genToolPlan(seed uint64, i int) *toolPlan {
	r := plan.NewRand(seed)
	tp := &toolPlan{Inputs: map[string]*toolInput{}, Prestate: map[string]string{}, OrderSeed: r.Uint64()}
	canonical := i%25 == 0
	tp.Canonical = canonical
	if r.Intn(2) == 0 {
		tp.FragSeed = r.Uint64() | 1
	}
	if r.Intn(3) == 0 { // leftovers of a killed run
		for k := 0; k < r.Range(1, 3); k++ {
			name := ref.FileNames[r.Intn(ref.NumLang)]
			tp.Strays = append(tp.Strays, []string{name + ".go.tmp", name + ".go.new", "." + name + ".go.tmp", name + ".go.partial", name + ".tmp", name + ".go~"}[r.Intn(6)])
		}
	}
	hugeLang := -1
	if i%30 == 11 {
		hugeLang = r.Intn(ref.NumLang)
	}
	for l := 0; l < ref.NumLang; l++ {
		name := ref.FileNames[l]
		if canonical {
			tp.Inputs[name] = canonicalInput(l)
		} else {
			tp.Inputs[name] = genInput(r, l == hugeLang)
		}
		tp.Prestate[name] = []string{"absent", "longer", "shorter", "junk", "longer"}[r.Intn(5)]
		if r.Intn(12) == 0 {
			tp.Prestate[name] = []string{"symlink-rel", "symlink-abs", "symlink-dangling"}[r.Intn(3)]
		}
	}
	if i%40 == 7 { // fault runs: counted, no verdict
		switch r.Intn(3) {
		case 0:
			tp.Inputs[ref.FileNames[r.Intn(ref.NumLang)]].Missing = true
		case 1:
			tp.Prestate[ref.FileNames[r.Intn(ref.NumLang)]] = "readonly"
		default:
			tp.NoDir = true
		}
	}
	// file times: drawn from a generator of their own so that the rest of the plan is what it was before they existed
	rt := plan.NewRand(seed ^ 0x7469_6d65_7374_616d)
	tp.UpMtime = 1_600_000_000 + int64(rt.Intn(100_000_000))
	tp.PreDelta = []int64{-365 * 86400, -3600, -2, -1, 0, 1, 2, 3600, 365 * 86400, 30 * 86400}[rt.Intn(10)]
	return tp
}

// buildC17 builds the generator from a scratch copy with its fetch order under control.
func buildC17(e *Env) (*c17Engine, *instr.Report, error) {
	if err := e.CopyRepo(); err != nil {
		return nil, nil, err
	}
	idir, err := e.CopyRepoAs("trepo")
	if err != nil {
		return nil, nil, err
	}
	rep, err := instr.Tool(idir, "update-wordlist")
	if err != nil {
		return nil, nil, Troublef("BUILD-TROUBLE instrumenter (tool): %v", err)
	}
	bin := filepath.Join(e.Scr, "bin", "update-wordlist")
	if o, err := e.Go(idir, "build", "-trimpath", "-tags", "verif", "-o", bin, "./update-wordlist"); err != nil {
		return nil, nil, Troublef("BUILD-TROUBLE building the generator with -tags verif failed:\n%s", o)
	}
	g := &c17Engine{e: e, bin: bin, committed: map[string][]string{}}
	for l := 0; l < ref.NumLang; l++ {
		_, words, err := parseList(filepath.Join(e.RepoCopy(), "internal", "wordlist", ref.FileNames[l]+".go"))
		if err != nil {
			// the committed file is not of the generated shape: fall back to collecting its string literals
			words = nil
			src, rerr := os.ReadFile(filepath.Join(e.RepoCopy(), "internal", "wordlist", ref.FileNames[l]+".go"))
			if rerr == nil {
				fset := token.NewFileSet()
				if f, perr := parser.ParseFile(fset, "x.go", src, 0); perr == nil {
					ast.Inspect(f, func(n ast.Node) bool {
						if bl, ok := n.(*ast.BasicLit); ok && bl.Kind == token.STRING {
							if s, uerr := strconv.Unquote(bl.Value); uerr == nil {
								words = append(words, s)
							}
						}
						return true
					})
				}
			}
		}
		g.committed[ref.FileNames[l]] = words
	}
	return g, rep, nil
}

// CheckC17 - the generator as a whole program on simulated upstream and disk.
func CheckC17(e *Env) (int, error) {
	g, rep, err := buildC17(e)
	if err != nil {
		return 2, err
	}
	n := 1500
	if e.Tier == "thorough" {
		n = 150000
	}
	// Only AMBIENT variables are varied for the tool - facts about the machine and the session that differ between
	// a developer's terminal, a CI runner and a container. A variable of the tool's own (an output directory, a
	// language filter, a URL) is configuration: setting it legitimately changes what the tool does, and the
	// property speaks about the tool as configured by default.
	allNames, envOpaque := instr.ToolEnvNames(e.RepoCopy(), "update-wordlist")
	ambient := map[string]bool{"CI": true, "NO_COLOR": true, "TERM": true, "LANG": true, "LC_ALL": true, "LC_MESSAGES": true, "LC_CTYPE": true,
		"TZ": true, "USER": true, "LOGNAME": true, "DEBUG": true, "VERBOSE": true, "COLUMNS": true, "GITHUB_ACTIONS": true}
	var envNames, envOwn []string
	for _, n := range allNames {
		if ambient[n] {
			envNames = append(envNames, n)
		} else {
			envOwn = append(envOwn, n)
		}
	}
	envVals := append([]string{"1", "true", "0", "ci", "C", "en_US.UTF-8", "ja_JP.UTF-8"}, instr.ToolEnvValues(e.RepoCopy(), "update-wordlist")...)
	var mu sync.Mutex
	var viols []*Violation
	var trouble error
	tot := map[string]int{}
	distinct := map[string]bool{}
	firstLang := map[string]bool{}
	scripts := map[string]int{}
	var samples []interface{}
	runs := 0
	var od OrderedDigest
	e.Logf("C17: %d tool runs (map ranges rewritten: %d, uncontrolled ranges: %d)", n, rep.MapRanges, rep.OtherRanges)
	e.Parallel(n, func(i int) {
		tp := genToolPlan(plan.Derive(e.Seed, "C17/run", uint64(i)), i)
		tp.NoLen = i%4 == 2
		if i%3 == 1 { // the size of the machine: a tool that fetches or renders in parallel sizes its workers by it
			tp.GoMaxProcs = []int{1, 2, 3, 4, 5, 6, 7, 8, 9, 12}[(i/3)%10]
		}
		if len(envNames) > 0 && i%8 == 5 { // the environment is no input file: one variable the tool is seen to read, set
			k := i / 8
			tp.Env = []string{envNames[k%len(envNames)] + "=" + envVals[(k/len(envNames))%len(envVals)]}
		}
		v, st, err := g.run(tp)
		mu.Lock()
		defer mu.Unlock()
		if err != nil {
			if trouble == nil {
				trouble = err
			}
			return
		}
		runs++
		vd := ""
		if v != nil {
			vd = v.Class
		}
		od.Add(i, uint64(st["zz_digest"])^strDigest(vd))
		delete(st, "zz_digest")
		addMap(tot, st)
		if v != nil {
			viols = append(viols, g.violation(tp, v))
		}
		// non-trivial: >= 1 target with a pre-existing file of different length and >= 1 non-ASCII word
		pre, nonASCII := false, false
		for name, in := range tp.Inputs {
			if k := tp.Prestate[name]; k == "longer" || k == "shorter" || k == "junk" || strings.HasPrefix(k, "symlink") {
				pre = true
			}
			for _, w := range in.Lines {
				for _, c := range w {
					if c > 127 {
						nonASCII = true
					}
				}
				if nonASCII {
					break
				}
			}
		}
		if pre && nonASCII && !tp.faultRun() {
			distinct[plan.Digest(tp)] = true
		}
		// which file the seeded order fetches first
		firstLang[strconv.FormatUint(tp.OrderSeed%1000003, 10)] = true
		if tp.Canonical {
			scripts["canonical"]++
		}
		for _, in := range tp.Inputs {
			if len(in.Lines) > 65536 {
				scripts["runs_with_a_file_over_64Ki_lines"]++
				break
			}
		}
		if len(samples) < 3 && i%211 == 1 {
			small := map[string]interface{}{"order_seed": tp.OrderSeed, "prestate": tp.Prestate}
			for name, in := range tp.Inputs {
				l := in.Lines
				if len(l) > 6 {
					l = l[:6]
				}
				small["first_lines_of_"+name] = l
				small["lines_in_"+name] = len(in.Lines)
				break
			}
			samples = append(samples, small)
		}
	})
	if trouble != nil {
		return 2, trouble
	}
	sort.Slice(viols, func(a, b int) bool { return len(mustJSON(viols[a].Plan)) < len(mustJSON(viols[b].Plan)) })
	code, reported := e.Report("C17", viols, g)
	if tot["truncation_needed_and_happened"] == 0 {
		fmt.Println("PROBE-ZERO C17: truncation_needed_and_happened")
	}
	cov := map[string]interface{}{
		"evaluations":                            runs,
		"distinct_nontrivial":                    len(distinct),
		"rule":                                   "a case = one run of the real update-wordlist binary (built with -tags verif, its map range rewritten to a seed-chosen order) against a simulated upstream (in-process file transport, ten generated files of letters and combining marks in 20 alphabets (scripts and letter/mark categories), 0-5000 lines and occasionally 70k-260k lines (> 1 MiB), blank lines, duplicates, with/without trailing newline; in half of the runs the response bodies arrive in seeded short reads, the last bytes possibly together with io.EOF; every 25th run the frozen canonical lists) and a seeded disk pre-state per target (absent, much longer stale file, shorter file, junk; one target in twelve is a relative, absolute or dangling symbolic link into a sibling directory), in a third of the runs also leftovers of a killed earlier run under the temporary names such tools use (<lang>.go.tmp, .new, .partial, ...). Each output is parsed and type-checked and compared entry by entry with the non-empty input lines. Non-trivial: >= 1 target had a pre-existing file and >= 1 word is non-ASCII; distinct by digest of (inputs, pre-state, order).",
		"exhaustive":                             false,
		"samples":                                samples,
		"runs":                                   runs,
		"sim_steps_total":                        tot["lists_verified"],
		"sim_time_note":                          "no clock in the tool; counted in files generated and verified",
		"environment_variables_read_by_the_tool": envNames,
		"configuration_variables_of_the_tool_left_alone": envOwn,
		"environment_reads_with_opaque_names":            envOpaque,
		"lists_verified":                                 tot["lists_verified"],
		"words_verified":                                 tot["words_verified"],
		"canonical_lists_reproduced":                     tot["canonical_lists_reproduced"],
		"faults_fired":                                   map[string]int{"prestate_longer": tot["prestate_longer"], "prestate_shorter": tot["prestate_shorter"], "prestate_junk": tot["prestate_junk"], "prestate_absent": tot["prestate_absent"], "prestate_symlink_relative": tot["prestate_symlink-rel"], "prestate_symlink_absolute": tot["prestate_symlink-abs"], "prestate_symlink_dangling": tot["prestate_symlink-dangling"], "fault_runs_no_verdict": tot["fault_runs_no_verdict"], "fault_runs_tool_failed": tot["fault_runs_tool_failed"], "runs_with_seeded_file_times": tot["runs_with_seeded_file_times"], "runs_with_targets_newer_than_upstream": tot["runs_with_targets_newer_than_upstream"], "runs_with_targets_older_than_upstream": tot["runs_with_targets_older_than_upstream"]},
		"probes":                                         map[string]int{"truncation_needed_and_happened": tot["truncation_needed_and_happened"], "distinct_fetch_orders": len(firstLang), "runs_with_fragmented_bodies": tot["runs_with_fragmented_bodies"], "stray_leftover_files_of_a_killed_run": tot["stray_leftover_files"], "runs_with_a_file_over_64Ki_lines": scripts["runs_with_a_file_over_64Ki_lines"], "canonical_runs": scripts["canonical"]},
		"map_ranges_rewritten":                           rep.MapRanges,
		"uncontrolled_ranges":                            rep.OtherRanges,
		"schedule_space_note":                            "10! fetch orders x 5^10 pre-states: real but shallow; most of the strength is the workload through the simulated upstream",
		"raw_violations":                                 len(viols),
		"outcome_digest":                                 od.String(),
	}
	if err := e.WriteEvidence("C17", "exploration", cov, []string{
		"go/parser, go/types and strconv.Unquote decide what a generated file 'contains'",
		"the verif-tagged init only replaces http.DefaultTransport; everything else is the shipped tool",
		"frozen canonical lists in /verif/ref/wordlists (SHA-256 pinned, equal to the published digests)",
	}, reported); err != nil {
		return 2, err
	}
	e.Logf("C17: %d runs, %d lists verified, %d distinct non-trivial, %d raw violations", runs, tot["lists_verified"], len(distinct), len(viols))
	return code, nil
}
