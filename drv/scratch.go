// Package drv is the driver side of the framework: scratch builds from /repo's
// current working tree, the worker-process pool, minimisation, replay files and
// evidence. Standard library only.
package drv

import (
	"bytes"
	"context"
	"encoding/json"
	"fmt"
	"io"
	"os"
	"os/exec"
	"path/filepath"
	"strconv"
	"strings"
	"sync"
	"sync/atomic"
	"time"

	"a0verif/instr"
)

// Trouble is infrastructure trouble: exit 2, never a verdict.
type Trouble struct{ Msg string }

func (t Trouble) Error() string { return t.Msg }

func Troublef(f string, a ...interface{}) error { return Trouble{fmt.Sprintf(f, a...)} }

type Env struct {
	Home     string // /verif (or a snapshot of it)
	Repo     string // /repo unless VERIF_REPO says otherwise
	Scr      string // scratch directory, removed on exit
	Seed     uint64
	Tier     string
	Jobs     int
	Start    time.Time
	GoEnv    []string
	jobCtr   int64
	Verbose  bool
	goroot   string
	slowRuns int64
	Clocks   map[string]*instr.ClockReport // clock seam of each scratch copy, by module file name
}

func envInt(name string, def int) int {
	if v := os.Getenv(name); v != "" {
		if n, err := strconv.Atoi(v); err == nil {
			return n
		}
	}
	return def
}

func NewEnv(tier string) (*Env, error) {
	home, err := os.Getwd()
	if err != nil {
		return nil, err
	}
	if h := os.Getenv("VERIF_HOME"); h != "" {
		home = h
	}
	e := &Env{Home: home, Repo: "/repo", Tier: tier, Start: time.Now()}
	if r := os.Getenv("VERIF_REPO"); r != "" {
		e.Repo = r
	}
	seed := uint64(1)
	if s := os.Getenv("VERIF_SEED"); s != "" {
		v, err := strconv.ParseInt(s, 0, 64)
		if err != nil {
			u, err2 := strconv.ParseUint(s, 0, 64)
			if err2 != nil {
				return nil, Troublef("VERIF_SEED=%q is not an integer", s)
			}
			v = int64(u)
		}
		seed = uint64(v)
	}
	e.Seed = seed
	if t := os.Getenv("VERIF_TIER"); t != "" && tier == "" {
		e.Tier = t
	}
	if e.Tier == "" {
		e.Tier = "quick"
	}
	if e.Tier != "quick" && e.Tier != "thorough" {
		return nil, Troublef("unknown tier %q", e.Tier)
	}
	e.Jobs = envInt("VERIF_JOBS", 16)
	e.Verbose = os.Getenv("VERIF_VERBOSE") != ""
	base := os.Getenv("VERIF_SCRATCH")
	if base == "" {
		base = os.Getenv("TMPDIR")
	}
	if base == "" {
		base = "/tmp"
	}
	scr, err := os.MkdirTemp(base, "bip39-verif.")
	if err != nil {
		return nil, Troublef("scratch: %v", err)
	}
	e.Scr = scr
	e.GoEnv = append(os.Environ(),
		"GOFLAGS=-mod=mod", "GOPROXY=off", "GOSUMDB=off", "GOTOOLCHAIN=local", "CGO_ENABLED=1")
	return e, nil
}

func (e *Env) Cleanup() {
	if e.Scr != "" && os.Getenv("VERIF_KEEP_SCRATCH") == "" {
		os.RemoveAll(e.Scr)
	}
}

func copyTree(src, dst string) error {
	return filepath.Walk(src, func(p string, info os.FileInfo, err error) error {
		if err != nil {
			return err
		}
		rel, _ := filepath.Rel(src, p)
		if rel == ".git" {
			if info.IsDir() {
				return filepath.SkipDir
			}
			return nil // worktrees have a .git file
		}
		t := filepath.Join(dst, rel)
		if info.IsDir() {
			return os.MkdirAll(t, 0755)
		}
		if !info.Mode().IsRegular() {
			return nil
		}
		b, err := os.ReadFile(p)
		if err != nil {
			return err
		}
		return os.WriteFile(t, b, 0644)
	})
}

// CopyRepo copies the working tree of the repository into the scratch
// directory and writes the module file the harness is built with.
func (e *Env) CopyRepo() error {
	_, err := e.CopyRepoAs("repo")
	return err
}

// CopyRepoAs makes a named scratch copy with its own module file <name>.mod.
func (e *Env) CopyRepoAs(name string) (string, error) {
	dst := filepath.Join(e.Scr, name)
	if err := copyTree(e.Repo, dst); err != nil {
		return "", Troublef("copy %s: %v", e.Repo, err)
	}
	mod := "module a0verif\n\ngo 1.21\n\nrequire github.com/islishude/bip39 v0.0.0\n\nreplace github.com/islishude/bip39 => " + dst + "\n"
	modName := "go"
	if name != "repo" {
		modName = name
	}
	if err := os.WriteFile(filepath.Join(e.Scr, modName+".mod"), []byte(mod), 0644); err != nil {
		return "", Troublef("%v", err)
	}
	sum, _ := os.ReadFile(filepath.Join(dst, "go.sum"))
	own, _ := os.ReadFile(filepath.Join(e.Home, "go.sum"))
	if err := os.WriteFile(filepath.Join(e.Scr, modName+".sum"), append(sum, own...), 0644); err != nil {
		return "", Troublef("%v", err)
	}
	// the clock seam: generated packages always, import "time" of library files redirected to the shim
	if e.goroot == "" {
		out, err := e.Go(e.Home, "env", "GOROOT")
		if err != nil {
			return "", Troublef("go env GOROOT: %v %s", err, out)
		}
		lines := strings.Split(strings.TrimSpace(out), "\n")
		e.goroot = strings.TrimSpace(lines[len(lines)-1])
	}
	cr, err := instr.Clock(dst, e.goroot)
	if err != nil {
		return "", Troublef("clock seam: %v", err)
	}
	if e.Clocks == nil {
		e.Clocks = map[string]*instr.ClockReport{}
	}
	e.Clocks[modName] = cr
	if len(cr.Rewritten) > 0 {
		e.Logf("clock seam: import \"time\" redirected to the simulated clock in %v", cr.Rewritten)
	}
	return dst, nil
}

// SlowIsNoVerdict: the tree under test waits on timers or sleeps (it imports package time). A history that does
// not finish within the harness's wall-clock limit may then be slow rather than stuck; it is counted and
// reported as inconclusive, never as a violation.
func (e *Env) SlowIsNoVerdict(mod string, what string) bool {
	if len(e.ClockFiles(mod)) == 0 {
		return false
	}
	if atomic.AddInt64(&e.slowRuns, 1) == 1 {
		e.Logf("INCONCLUSIVE: %s did not finish within the wall-clock limit on a tree that uses package time (timers and sleeps run in real time): no verdict", what)
	}
	return true
}

// ClockFiles lists the library files of a scratch copy that read the simulated clock.
func (e *Env) ClockFiles(mod string) []string {
	if cr := e.Clocks[mod]; cr != nil {
		return cr.Rewritten
	}
	return nil
}

func (e *Env) RepoCopy() string { return filepath.Join(e.Scr, "repo") }

// Go runs the go tool in dir; trouble carries the tool's output.
func (e *Env) Go(dir string, args ...string) (string, error) {
	ctx, cancel := context.WithTimeout(context.Background(), 15*time.Minute)
	defer cancel()
	cmd := exec.CommandContext(ctx, "go", args...)
	cmd.Dir = dir
	cmd.Env = e.GoEnv
	var buf bytes.Buffer
	cmd.Stdout, cmd.Stderr = &buf, &buf
	err := cmd.Run()
	return buf.String(), err
}

// BuildHarness builds one harness main package against the scratch copy.
func (e *Env) BuildHarness(pkg, name string, extra ...string) (string, error) {
	return e.BuildHarnessMod("go", pkg, name, extra...)
}

// BuildHarnessMod builds against the scratch copy whose module file is <mod>.mod.
func (e *Env) BuildHarnessMod(mod, pkg, name string, extra ...string) (string, error) {
	out := filepath.Join(e.Scr, "bin", name)
	args := []string{"build", "-modfile=" + filepath.Join(e.Scr, mod+".mod"), "-trimpath", "-tags", "verif"}
	args = append(args, extra...)
	args = append(args, "-o", out, pkg)
	if o, err := e.Go(e.Home, args...); err != nil {
		if cr := e.Clocks[mod]; cr != nil && len(cr.Rewritten) > 0 {
			// the shim does not cover what this tree does with package time: give the seam up for this copy, never the check
			e.Logf("CLOCK-SEAM-UNAVAILABLE for %s: the tree does not build against the simulated clock; real clock used. %s", mod, firstLine(o))
			if err := cr.Undo(); err != nil {
				return "", Troublef("clock seam undo: %v", err)
			}
			return e.BuildHarnessMod(mod, pkg, name, extra...)
		}
		return "", Troublef("BUILD-TROUBLE building %s against the working tree with -tags verif failed:\n%s", pkg, o)
	}
	return out, nil
}

// Proc is the result of one worker process.
type Proc struct {
	Exit     int
	TimedOut bool
	Stderr   string
	Stdout   string
	Wall     time.Duration
}

// RunProc runs a worker binary with a wall-clock limit and an address-space limit.
func (e *Env) RunProc(timeout time.Duration, env []string, dir string, bin string, args ...string) Proc {
	ctx, cancel := context.WithTimeout(context.Background(), timeout)
	defer cancel()
	cmd := exec.CommandContext(ctx, bin, args...)
	cmd.Dir = dir
	cmd.Env = append(os.Environ(), env...)
	var so, se bytes.Buffer
	cmd.Stdout, cmd.Stderr = &so, &se
	t0 := time.Now()
	err := cmd.Run()
	p := Proc{Stderr: se.String(), Stdout: so.String(), Wall: time.Since(t0)}
	if ctx.Err() == context.DeadlineExceeded {
		p.TimedOut = true
		p.Exit = -1
		return p
	}
	if err != nil {
		if ee, ok := err.(*exec.ExitError); ok {
			p.Exit = ee.ExitCode()
		} else {
			p.Exit = -2
			p.Stderr += err.Error()
		}
	}
	return p
}

// DiedOfDevicePanic: the process was ended by the simulated device's own panic (a dying source), unrecovered
// because it surfaced in a goroutine of the library's own rather than in the caller. That is the end of the
// simulated process, as it is when the caller sees the panic - fail-closed, and never a verdict.
func (p Proc) DiedOfDevicePanic() bool {
	return p.Exit == 2 && !p.TimedOut && (strings.Contains(p.Stderr, "panic: simulated device died") || strings.Contains(p.Stderr, "panic: simulated device failure"))
}

// JobDir returns a fresh directory for one worker process.
func (e *Env) JobDir() string {
	n := atomic.AddInt64(&e.jobCtr, 1)
	d := filepath.Join(e.Scr, "jobs", strconv.FormatInt(n/1000, 10), strconv.FormatInt(n, 10))
	os.MkdirAll(d, 0755)
	return d
}

// RunJSON runs `bin mode in out` for a worker, marshalling in and unmarshalling out.
func (e *Env) RunJSON(bin, mode string, in, out interface{}, timeout time.Duration, env ...string) (Proc, error) {
	d := e.JobDir()
	defer os.RemoveAll(d)
	b, err := json.Marshal(in)
	if err != nil {
		return Proc{}, err
	}
	inP, outP := filepath.Join(d, "in.json"), filepath.Join(d, "out.json")
	if err := os.WriteFile(inP, b, 0644); err != nil {
		return Proc{}, err
	}
	p := e.RunProc(timeout, env, d, bin, mode, inP, outP)
	if p.Exit != 0 || p.TimedOut {
		return p, nil
	}
	ob, err := os.ReadFile(outP)
	if err != nil {
		return p, Troublef("worker %s %s produced no output: %v", bin, mode, err)
	}
	if err := json.Unmarshal(ob, out); err != nil {
		return p, Troublef("worker output: %v", err)
	}
	return p, nil
}

// Parallel runs f(i) for i in [0,n) on e.Jobs goroutines. f must be safe.
func (e *Env) Parallel(n int, f func(i int)) {
	var wg sync.WaitGroup
	var next int64 = -1
	w := e.Jobs
	if w > n {
		w = n
	}
	for k := 0; k < w; k++ {
		wg.Add(1)
		go func() {
			defer wg.Done()
			for {
				i := int(atomic.AddInt64(&next, 1))
				if i >= n {
					return
				}
				f(i)
			}
		}()
	}
	wg.Wait()
}

func (e *Env) Logf(f string, a ...interface{}) {
	fmt.Fprintf(os.Stderr, "[%6.1fs] "+f+"\n", append([]interface{}{time.Since(e.Start).Seconds()}, a...)...)
}

func WriteFileJSON(path string, v interface{}) error {
	b, err := json.MarshalIndent(v, "", " ")
	if err != nil {
		return err
	}
	os.MkdirAll(filepath.Dir(path), 0755)
	return os.WriteFile(path, append(b, '\n'), 0644)
}

func tail(s string, n int) string {
	l := strings.Split(strings.TrimRight(s, "\n"), "\n")
	if len(l) > n {
		l = l[len(l)-n:]
	}
	return strings.Join(l, "\n")
}

var _ = io.EOF

func readJSONFile(path string, v interface{}) error {
	b, err := os.ReadFile(path)
	if err != nil {
		return Troublef("%v", err)
	}
	if err := json.Unmarshal(b, v); err != nil {
		return Troublef("%s: %v", path, err)
	}
	return nil
}
