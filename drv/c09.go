package drv

import (
	"encoding/json"
	"fmt"
	"math"
	"sort"
	"strings"
	"sync"
	"time"

	"a0verif/instr"
	"a0verif/plan"
)

type c09Job struct {
	Kind   string    `json:"kind"`
	Lo     int       `json:"lo"`
	Hi     int       `json:"hi"`
	List   []int     `json:"list,omitempty"`
	Langs  []int     `json:"langs,omitempty"`
	States []string  `json:"states,omitempty"`
	Seed   uint64    `json:"seed"`
	Cases  []c09Case `json:"cases,omitempty"`
	capped bool
	env    []string // additions to the process environment of this job
}
type c09Case struct {
	Kind  string `json:"kind"`
	Count int    `json:"count,omitempty"`
	Len   int    `json:"len,omitempty"`
	Nil   bool   `json:"nil,omitempty"`
	Lang  int    `json:"lang"`
	State string `json:"state,omitempty"`
	Seed  uint64 `json:"seed,omitempty"`
	Idle  bool   `json:"idle,omitempty"`
	J     int64  `json:"j,omitempty"`
}
type c09Viol struct {
	Case   c09Case      `json:"case"`
	Stage  []c09Case    `json:"stage,omitempty"`
	Class  string       `json:"class"`
	Detail string       `json:"detail"`
	Out    plan.Outcome `json:"outcome"`
	env    []string
}
type c09Result struct {
	Cases       int            `json:"cases"`
	CountCases  int            `json:"count_cases"`
	EntCases    int            `json:"entropy_cases"`
	Rejected    int            `json:"rejected"`
	Accepted    int            `json:"accepted"`
	ByState     map[string]int `json:"by_state"`
	Probes      map[string]int `json:"probes"`
	DistinctNT  int            `json:"distinct_nontrivial"`
	Viol        []c09Viol      `json:"violations,omitempty"`
	ViolCount   int            `json:"violation_count"`
	Samples     []c09Case      `json:"samples,omitempty"`
	SampleOut   []string       `json:"sample_outcomes,omitempty"`
	DeviceReads int            `json:"device_reads"`
	Digest      uint64         `json:"digest"`
	Verdicts    []c09Verdict   `json:"verdicts,omitempty"`
}

type c09Verdict struct {
	Class  string       `json:"class,omitempty"`
	Detail string       `json:"detail,omitempty"`
	Out    plan.Outcome `json:"outcome"`
}

// c09Plan: the calls run in this order in one fresh (address-space capped) process; the verdict is that of
// the LAST one, the earlier ones only set the stage (a warmed cache, a failed source, ...).
type c09Plan struct {
	Cases []c09Case `json:"cases"`
	Env   []string  `json:"env,omitempty"` // additions to the process environment
}

func c09Key(c *c09Case, class string) string {
	if c.Kind == "count" {
		return fmt.Sprintf("%s/count=%d/lang=%d/state=%s", class, c.Count, c.Lang, c.State)
	}
	return fmt.Sprintf("%s/entlen=%d/nil=%v/lang=%d", class, c.Len, c.Nil, c.Lang)
}

func c09Violation(v *c09Viol) *Violation {
	cs := append(append([]c09Case{}, v.Stage...), v.Case)
	stage := ""
	if len(v.env) > 0 {
		stage = " [process environment: " + strings.Join(v.env, " ") + "]"
	}
	if len(v.Stage) > 0 {
		stage += fmt.Sprintf(" (after %d earlier call(s) in the same process: %s)", len(v.Stage), mustJSON(v.Stage))
	}
	return &Violation{Property: "C09", Class: v.Class, Key: c09Key(&v.Case, v.Class), Engine: "srcsim-c09", Plan: c09Plan{Cases: cs, Env: v.env},
		Detail: v.Detail + stage + "; outcome " + v.Out.Out + " err=" + v.Out.Err + " panic=" + v.Out.Panic}
}

type c09Engine struct {
	e   *Env
	bin string
}

// capped runs a worker under an address-space limit so that a dropped upper
// bound ends as a crash of that one process, attributed to its single case.
func (g *c09Engine) runCapped(c c09Case) (*c09Viol, error) { return g.runCappedSeq([]c09Case{c}, nil) }

// runCappedSeq runs the cases in one capped process and returns the verdict on the last one.
func (g *c09Engine) runCappedSeq(cs []c09Case, env []string) (v *c09Viol, err error) {
	defer func() {
		if v != nil {
			v.env = env
		}
	}()
	c := cs[len(cs)-1]
	var res c09Result
	d := g.e.JobDir()
	inP, outP := d+"/in.json", d+"/out.json"
	if err := WriteFileJSON(inP, c09Job{Kind: "explicit", Cases: cs}); err != nil {
		return nil, err
	}
	p := g.e.RunProc(90*time.Second, env, d, "/bin/sh", "-c", "ulimit -v 4194304; exec \"$0\" c09 \"$1\" \"$2\"", g.bin, inP, outP)
	if p.TimedOut {
		return &c09Viol{Case: c, Class: "hang", Detail: "the call did not return within 90 s (worker killed)"}, nil
	}
	if p.Exit == 3 {
		return nil, Troublef("C09 worker: %s", tail(p.Stderr, 5))
	}
	if p.Exit != 0 {
		return &c09Viol{Case: c, Class: "crash", Detail: "the process died during the call (exit " + fmt.Sprint(p.Exit) + "): " + firstLine(p.Stderr)}, nil
	}
	if err := readJSONFile(outP, &res); err != nil {
		return nil, err
	}
	if len(res.Verdicts) != len(cs) {
		return nil, Troublef("C09 worker returned %d verdicts for %d cases", len(res.Verdicts), len(cs))
	}
	last := res.Verdicts[len(cs)-1]
	if last.Class == "" {
		return nil, nil
	}
	return &c09Viol{Case: c, Stage: cs[:len(cs)-1], Class: last.Class, Detail: last.Detail, Out: last.Out}, nil
}

func firstLine(s string) string {
	for _, l := range strings.Split(s, "\n") {
		if strings.TrimSpace(l) != "" {
			if len(l) > 200 {
				l = l[:200]
			}
			return l
		}
	}
	return ""
}

func toC09Plan(pl interface{}) (*c09Plan, error) {
	var p c09Plan
	b, _ := json.Marshal(pl)
	if err := json.Unmarshal(b, &p); err != nil {
		return nil, err
	}
	if len(p.Cases) == 0 {
		return nil, Troublef("C09 plan without cases")
	}
	return &p, nil
}

func (g *c09Engine) Reproduce(pl interface{}) (*Violation, error) {
	p, err := toC09Plan(pl)
	if err != nil {
		return nil, err
	}
	v, err := g.runCappedSeq(p.Cases, p.Env)
	if err != nil || v == nil {
		return nil, err
	}
	return c09Violation(v), nil
}

func (g *c09Engine) Minimise(v *Violation) *Violation {
	p, err := toC09Plan(v.Plan)
	if err != nil {
		return v
	}
	cs := p.Cases
	same := func(t []c09Case) *c09Viol {
		got, err := g.runCappedSeq(t, p.Env)
		if err == nil && got != nil && got.Class == v.Class {
			return got
		}
		return nil
	}
	best := same(cs)
	if best == nil {
		return v
	}
	// which of the stage-setting calls are needed?
	if len(cs) > 1 {
		stage, last := cs[:len(cs)-1], cs[len(cs)-1]
		keep := DDMin(len(stage), func(k []int) bool {
			t := []c09Case{}
			for _, i := range k {
				t = append(t, stage[i])
			}
			return same(append(t, last)) != nil
		}, 150, 60*time.Second)
		t := []c09Case{}
		for _, i := range keep {
			t = append(t, stage[i])
		}
		t = append(t, last)
		if got := same(t); got != nil {
			cs, best = t, got
		}
	}
	// the plainest device state and English for the judged call
	t := append([]c09Case{}, cs...)
	last := &t[len(t)-1]
	last.Lang = 2
	if last.Kind == "count" {
		last.State = "work"
	}
	if got := same(t); got != nil {
		best = got
	}
	return c09Violation(best)
}

// CheckC09 - size gates; the NewMnemonic half is observed at the device.
func CheckC09(e *Env) (int, error) {
	if err := e.CopyRepo(); err != nil {
		return 2, err
	}
	src, err := e.BuildHarness("./harness/srcsim", "srcsim")
	if err != nil {
		return 2, err
	}
	eng := &c09Engine{e, src}
	thorough := e.Tier == "thorough"
	allLangs := []int{0, 1, 2, 3, 4, 5, 6, 7, 8, 9, -1, 10, 100, 1 << 40}
	allStates := []string{"work", "frag", "eof0", "err0", "stall", "afterfail", "afteridle"}
	sd := func(name string, i int) uint64 { return plan.Derive(e.Seed, "C09/"+name, uint64(i)) }
	var jobs []c09Job
	const span = 4096
	for c := 0; c < 16; c++ {
		lo := -span + c*(2*span+1)/16
		hi := -span + (c+1)*(2*span+1)/16 - 1
		jobs = append(jobs, c09Job{Kind: "counts", Lo: lo, Hi: hi, Langs: allLangs, States: allStates, Seed: sd("counts", c)})
	}
	entHi := 4096
	if thorough {
		entHi = 100000
		const far = 1000000
		for c := 0; c < 64; c++ {
			// the ranges beyond +-4096, fewer languages and states
			lo := -far + c*(2*far+1)/64
			hi := -far + (c+1)*(2*far+1)/64 - 1
			jobs = append(jobs, c09Job{Kind: "counts", Lo: lo, Hi: hi, Langs: []int{2, 5, -1}, States: []string{"work", "eof0"}, Seed: sd("far", c)})
		}
	}
	jobs = append(jobs, c09Job{Kind: "entropy", Lo: 0, Hi: entHi, List: []int{65536, 1 << 20}, Langs: allLangs, Seed: sd("entropy", 0)})
	// extremes of int: one capped process per count
	bases := []int{math.MinInt64, math.MaxInt64, math.MinInt32, math.MaxInt32, 1 << 31, 1 << 32, -(1 << 32), 1 << 62, -(1 << 62), 1 << 24, 1 << 28, 3 << 30, 1 << 40, 1 << 53}
	extSet := map[int]bool{}
	for _, b := range bases {
		for d := -3; d <= 3; d++ {
			v := b + d
			if (d > 0 && v < b) || (d < 0 && v > b) { // wrapped
				continue
			}
			extSet[v] = true
		}
	}
	// arithmetic-wrap classes: counts congruent to an accepted count modulo a power of two
	// (truncation to a narrower type; length*32/3, length*4/3, length+length/3 wrapping)
	var small []int
	for _, m := range []int{12, 15, 18, 21, 24} {
		for sft := uint(8); sft <= 63; sft++ {
			for _, j := range []int{1, -1, 3, 5} {
				v := int(int64(m) + int64(j)<<sft) // wraps by design
				if v >= -(1<<22) && v <= 1<<22 {
					small = append(small, v)
				} else {
					extSet[v] = true
				}
			}
		}
		for sft := uint(20); sft <= 62; sft++ { // 3*2^s/4-type solutions of c + c/3 == m (mod 2^64)
			extSet[int(int64(3)<<(sft-2)+int64(m))] = true
			extSet[int(-(int64(3)<<(sft-2))+int64(m))] = true
		}
	}
	jobs = append(jobs, c09Job{Kind: "counts", Lo: 1, Hi: 0, List: small, Langs: []int{2, 5, 9, -1}, States: allStates, Seed: sd("wrapsmall", 0)})
	var ext []int
	for v := range extSet {
		ext = append(ext, v)
	}
	sort.Ints(ext)
	for i, v := range ext {
		st := []string{"work", "eof0", "afterfail"}[i%3]
		jobs = append(jobs, c09Job{Kind: "explicit", capped: true, Cases: []c09Case{{Kind: "count", Count: v, Lang: []int{2, 5, 9, -1}[i%4], State: st, Seed: sd("ext", i)}}})
	}

	// the environment is no argument: every variable the tree is seen to read, set in turn to plausible values,
	// with the sizes around the accepted windows
	envNames, envOpaque := instr.EnvNames(e.RepoCopy())
	envVals := append([]string{"1", "true", "0", "legacy", "all", "C", "en_US.UTF-8", "ja_JP.UTF-8"}, instr.EnvValueCandidates(e.RepoCopy())...)
	envJobs := 0
	for _, name := range envNames {
		for _, val := range envVals {
			ev := []string{name + "=" + val}
			jobs = append(jobs, c09Job{Kind: "counts", Lo: -8, Hi: 72, Langs: []int{2, 5, 9, -1}, States: []string{"work", "eof0"}, Seed: sd("env", envJobs), env: ev})
			jobs = append(jobs, c09Job{Kind: "entropy", Lo: 0, Hi: 136, Langs: []int{2, 5, 9, -1}, Seed: sd("envent", envJobs), env: ev})
			envJobs++
		}
	}
	tot := c09Result{ByState: map[string]int{}, Probes: map[string]int{}}
	var mu sync.Mutex
	var viols []*Violation
	var trouble error
	var samples []interface{}
	extreme := 0
	var od OrderedDigest
	e.Logf("C09: %d jobs (%d capped single-count processes)", len(jobs), len(ext))
	e.Parallel(len(jobs), func(i int) {
		j := jobs[i]
		var r c09Result
		var err error
		if j.capped {
			var v *c09Viol
			v, err = eng.runCapped(j.Cases[0])
			mu.Lock()
			defer mu.Unlock()
			if err != nil {
				if trouble == nil {
					trouble = err
				}
				return
			}
			extreme++
			if v != nil {
				od.Add(i, strDigest(v.Class))
			} else {
				od.Add(i, 1)
			}
			tot.Cases++
			tot.CountCases++
			tot.Rejected++
			tot.DistinctNT++
			tot.ByState[j.Cases[0].State]++
			if v != nil {
				tot.ViolCount++
				viols = append(viols, c09Violation(v))
			}
			if len(samples) < 10 && i%7 == 0 {
				samples = append(samples, map[string]interface{}{"case": j.Cases[0], "verdict": v == nil})
			}
			return
		}
		p, err := e.RunJSON(src, "c09", j, &r, 20*time.Minute, j.env...)
		mu.Lock()
		defer mu.Unlock()
		if err == nil && (p.Exit != 0 || p.TimedOut) {
			err = Troublef("C09 worker exit %d timeout=%v: %s", p.Exit, p.TimedOut, tail(p.Stderr, 8))
		}
		if err != nil {
			if trouble == nil {
				trouble = err
			}
			return
		}
		od.Add(i, r.Digest)
		tot.Cases += r.Cases
		tot.CountCases += r.CountCases
		tot.EntCases += r.EntCases
		tot.Rejected += r.Rejected
		tot.Accepted += r.Accepted
		tot.DistinctNT += r.DistinctNT
		tot.DeviceReads += r.DeviceReads
		tot.ViolCount += r.ViolCount
		addMap(tot.ByState, r.ByState)
		addMap(tot.Probes, r.Probes)
		for k := range r.Viol {
			r.Viol[k].env = j.env
			viols = append(viols, c09Violation(&r.Viol[k]))
		}
		if len(samples) < 10 {
			for k := range r.Samples {
				if k < 2 {
					samples = append(samples, map[string]interface{}{"case": r.Samples[k], "outcome": r.SampleOut[k]})
				}
			}
		}
	})
	if trouble != nil {
		return 2, trouble
	}
	sort.Slice(viols, func(a, b int) bool { return viols[a].Key < viols[b].Key })
	code, reported := e.Report("C09", viols, eng)
	cov := map[string]interface{}{
		"evaluations":         tot.Cases,
		"distinct_nontrivial": tot.DistinctNT,
		"rule":                "NewMnemonic half: every count in the range x 14 Language values (10 supported, 4 unsupported) x 7 device states (working, fragmenting, EOF at byte 0, error at byte 0, stall-then-work, working-after-a-call-whose-source-failed-part-way, working-after-simulated-idle-time), plus the extremes of int and every count congruent to an accepted count modulo 2^8..2^63 (arithmetic-wrap classes) one capped process each; NewMnemonicByEntropy half: nil and every length in the range plus 65536 and 1 MiB. Non-trivial: a size a bound/modulus slip would treat differently (multiples of 3 resp. 4, sizes within 3 resp. 4 of the accepted window, negatives, > 2^20, nil); distinct by (size, device state) resp. (length, nil).",
		"exhaustive":          false,
		"samples":             samples,
		"runs":                tot.Cases,
		"count_cases":         tot.CountCases,
		"entropy_cases_plain_sweep_no_simulation_content": tot.EntCases,
		"rejected_counts":                        tot.Rejected,
		"accepted_counts":                        tot.Accepted,
		"extreme_counts_capped_processes":        extreme,
		"device_states":                          tot.ByState,
		"clock_seam_files":                       e.ClockFiles("go"),
		"environment_variables_read_by_the_tree": envNames,
		"environment_reads_with_opaque_names":    envOpaque,
		"jobs_with_environment_set":              envJobs,
		"sim_steps_total":                        tot.DeviceReads,
		"sim_time_note":                          "no clock in the system; counted in device reads",
		"probes":                                 tot.Probes,
		"faults_fired":                           map[string]int{"eof_at_0_state": tot.ByState["eof0"], "err_at_0_state": tot.ByState["err0"], "stall_state": tot.ByState["stall"], "fragmenting_state": tot.ByState["frag"]},
		"raw_violations":                         tot.ViolCount,
		"outcome_digest":                         od.String(),
		"count_range":                            []int{-span, span},
		"entropy_len_range":                      []int{0, entHi},
	}
	if err := e.WriteEvidence("C09", "exploration", cov, []string{
		"the verif hook swaps the variable NewMnemonic reads, so 'bytes delivered by the device' is 'randomness consumed'",
		"the accepted sets {12,15,18,21,24} and {16,20,24,28,32} are taken from the property statement, not from the code",
	}, reported); err != nil {
		return 2, err
	}
	e.Logf("C09: %d cases, %d distinct non-trivial, %d raw violations", tot.Cases, tot.DistinctNT, tot.ViolCount)
	return code, nil
}
