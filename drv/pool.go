package drv

import (
	"encoding/hex"
	"strings"

	"a0verif/plan"
	"a0verif/ref"

	"golang.org/x/text/unicode/norm"
)

// Unsupported Language values used across the workloads.
var UnsupportedLangs = []int{-1, 10, 100, 1 << 40}

var entSizes = []int{16, 20, 24, 28, 32}
var wordCounts = []int{12, 15, 18, 21, 24}

// JumpVals are the idle periods and read durations, in simulated milliseconds, that the clock seam lets pass:
// just past the round thresholds a timeout, a TTL or a sweep interval is plausibly set to.
var JumpVals = []int64{50, 1100, 2500, 5100, 10100, 31000, 61000, 301000, 3601000, 90000000, 2678400000, 34560000000}

func setM(op *plan.Op, s string) { op.M, op.MX = plan.SetStr(s) }
func setP(op *plan.Op, s string) { op.P, op.PX = plan.SetStr(s) }

// sentenceKinds: how a test sentence is derived from a valid one.
var sentenceKinds = []string{"valid", "badsum", "unknown", "short", "long", "nfc", "altsep", "foreign", "empty", "badutf8", "typo", "typo-last"}

// MakeSentence builds a sentence of the given kind for (entropy, lang) with the reference model.
func MakeSentence(rng *plan.Rand, kind string, ent []byte, lang int) string {
	m := ref.Encode(ent, lang)
	sep := ref.Sep(lang)
	w := strings.Split(m, sep)
	switch kind {
	case "valid":
		return m
	case "badsum":
		idx := ref.Indices(ent)
		last := idx[len(idx)-1]
		w[len(w)-1] = ref.List(lang)[last^(1<<uint(rng.Intn(len(ent)/4)))] // flip one checksum bit
		return strings.Join(w, sep)
	case "unknown":
		w[rng.Intn(len(w))] = "zzzzqq"
		return strings.Join(w, sep)
	case "typo", "typo-last": // a word that is almost a list word (last rune dropped, or doubled)
		i := len(w) - 1
		if kind == "typo" {
			i = rng.Intn(len(w))
		}
		rs := []rune(w[i])
		if len(rs) > 2 && rng.Bool() {
			w[i] = string(rs[:len(rs)-1])
		} else {
			w[i] = string(append(rs, rs[len(rs)-1]))
		}
		return strings.Join(w, sep)
	case "short":
		return strings.Join(w[:len(w)-1], sep)
	case "long":
		return strings.Join(append(w, w[0]), sep)
	case "nfc":
		return norm.NFC.String(m)
	case "altsep":
		if lang == ref.Japanese {
			return strings.Join(w, " ")
		}
		return strings.Join(w, "　")
	case "foreign":
		other := (lang + 1 + rng.Intn(ref.NumLang-1)) % ref.NumLang
		w[rng.Intn(len(w))] = ref.List(other)[rng.Intn(2048)]
		return strings.Join(w, sep)
	case "empty":
		return ""
	case "badutf8":
		return m[:len(m)/2] + "\xff\xfe" + m[len(m)/2:]
	}
	panic("sentence kind " + kind)
}

func randEnt(rng *plan.Rand, size int) []byte {
	b := rng.Bytes(size)
	if size < 4 {
		return b
	}
	switch rng.Intn(12) {
	case 0: // leading zero bytes
		for i := 0; i <= rng.Intn(3); i++ {
			b[i] = 0
		}
	case 1:
		for i := range b {
			b[i] = 0xff
		}
	case 2:
		for i := range b {
			b[i] = 0
		}
	}
	return b
}

// devScript draws a device script for a NewMnemonic op.
func devScript(rng *plan.Rand, need int) []plan.DevStep {
	var s []plan.DevStep
	switch rng.Intn(6) {
	case 0: // fault free, one read
	case 1: // fragmenting
		left := need
		for left > 0 {
			k := rng.Range(1, 7)
			if k > left {
				k = left
			}
			s = append(s, plan.DevStep{D: k})
			left -= k
		}
	case 2: // error at byte k on its own read
		k := rng.Intn(need)
		if k > 0 {
			s = append(s, plan.DevStep{D: k})
		}
		s = append(s, plan.DevStep{E: []string{"eof", "ueof", "err", "weof", "closed", "temp", "eagain", "eintr", "isall", "wisall"}[rng.Intn(10)]})
	case 3: // error together with bytes
		k := rng.Range(1, need-1)
		s = append(s, plan.DevStep{D: k, E: []string{"eof", "ueof", "err", "temp", "eagain"}[rng.Intn(5)]})
	case 4: // stall then work
		s = append(s, plan.DevStep{}, plan.DevStep{})
	case 5: // short then rest
		s = append(s, plan.DevStep{D: rng.Range(1, need-1)})
	}
	return s
}

// GenOp draws one call. langs is the set of languages in focus.
func GenOp(rng *plan.Rand, langs []int) plan.Op {
	lang := langs[rng.Intn(len(langs))]
	if rng.Intn(14) == 0 {
		lang = UnsupportedLangs[rng.Intn(len(UnsupportedLangs))]
	}
	sl := lang // language the sentence is made for
	if !ref.Supported(sl) {
		sl = langs[rng.Intn(len(langs))]
		if !ref.Supported(sl) {
			sl = ref.English
		}
	}
	switch x := rng.Intn(100); {
	case x < 38: // check / valid
		op := plan.Op{K: "check", Lang: lang}
		if rng.Bool() {
			op.K = "valid"
		}
		kind := "valid"
		if rng.Intn(2) == 0 {
			kind = sentenceKinds[rng.Intn(len(sentenceKinds))]
		}
		if rng.Intn(10) == 0 { // a sentence of another language under this one
			sl = rng.Intn(ref.NumLang)
		}
		setM(&op, MakeSentence(rng, kind, randEnt(rng, entSizes[rng.Intn(5)]), sl))
		return op
	case x < 62: // ent
		op := plan.Op{K: "ent", Lang: lang}
		size := entSizes[rng.Intn(5)]
		switch rng.Intn(8) {
		case 0:
			size = []int{0, 1, 15, 17, 33, 36, 64}[rng.Intn(7)]
		case 1:
			op.Nil = true
			size = 0
		}
		if !op.Nil {
			op.Ent = hex.EncodeToString(randEnt(rng, size))
			if size == 0 {
				op.Ent = ""
			}
			op.Cap = []int{0, 0, 1, 7, 64}[rng.Intn(5)]
		}
		op.Scribble = rng.Intn(3) == 0
		return op
	case x < 80: // new
		n := wordCounts[rng.Intn(5)]
		if rng.Intn(8) == 0 {
			n = []int{0, -3, 9, 11, 13, 25, 27, 48}[rng.Intn(8)]
		}
		op := plan.Op{K: "new", Lang: lang, N: n}
		need := 32
		if ref.ValidWordCount(n) {
			need = n + n/3
		}
		d := &plan.Dev{Seed: rng.Uint64(), Script: devScript(rng, need)}
		if rng.Intn(10) == 0 {
			d.Hex = hex.EncodeToString(make([]byte, 1+rng.Intn(4))) // leading zero bytes
		}
		op.Dev = d
		return op
	case x < 90: // seed
		op := plan.Op{K: "seed", Lang: 0}
		kind := []string{"valid", "nfc", "altsep", "empty", "badutf8", "unknown"}[rng.Intn(6)]
		setM(&op, MakeSentence(rng, kind, randEnt(rng, entSizes[rng.Intn(5)]), sl))
		setP(&op, []string{"", "TREZOR", "pässword", "㍍ガバヴァぱばぐゞちぢ十人十色", "\xff", strings.Repeat("long passphrase ", 12)}[rng.Intn(6)])
		op.Scribble = rng.Intn(3) == 0
		return op
	default: // str
		l := lang
		if rng.Intn(3) == 0 {
			l = []int{-1, 9, 10, 11, 1 << 40, -(1 << 40)}[rng.Intn(6)]
		}
		return plan.Op{K: "str", Lang: l}
	}
}

// GenPool draws a pool of distinct calls.
func GenPool(rng *plan.Rand, size int, langs []int) []plan.Op {
	var pool []plan.Op
	seen := map[string]bool{}
	for len(pool) < size {
		op := GenOp(rng, langs)
		k := op.Key()
		if seen[k] {
			continue
		}
		seen[k] = true
		pool = append(pool, op)
	}
	return pool
}

var AllLangs = []int{0, 1, 2, 3, 4, 5, 6, 7, 8, 9}
