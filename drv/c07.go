package drv

import (
	"a0verif/instr"
	"math"
	"os"
	"path/filepath"
	"strings"

	"bytes"
	"encoding/hex"
	"encoding/json"
	"fmt"
	"sort"
	"strconv"
	"sync"
	"time"

	"a0verif/plan"
	"a0verif/ref"
)

type c07Engine struct {
	e         *Env
	src, cold string
}

// c07Plan is a history with the configuration it runs in.
type c07Plan struct {
	Mode string   `json:"mode"` // real | preinit
	Hist histPlan `json:"hist"`
	Env  []string `json:"env,omitempty"` // process environment additions (variables the tree is seen to read)
}

type c07Stats struct {
	statHistories                             int
	digest                                    uint64
	idChecks, newOK, newFail, devReads, procs int
	fired                                     map[string]int
	realOutputs                               []string
}

func (g *c07Engine) runHist(bin string, hp *histPlan, env ...string) (*histResult, Proc, error) {
	var res histResult
	p, err := g.e.RunJSON(bin, "hist", hp, &res, 120*time.Second, env...)
	if err != nil {
		return nil, p, err
	}
	if p.Exit == 3 {
		return nil, p, Troublef("C07 worker: %s", tail(p.Stderr, 5))
	}
	return &res, p, nil
}

// slowNoVerdict is set by CheckC07 (Env.SlowIsNoVerdict): see there.
var slowNoVerdict func() bool

// scriptPanics: the history's device is scripted to die (its Read panics) at some point.
func scriptPanics(hp *histPlan) bool {
	devs := []*plan.Dev{hp.Dev}
	for i := range hp.Ops {
		devs = append(devs, hp.Ops[i].Dev)
	}
	for _, d := range devs {
		if d == nil {
			continue
		}
		for _, st := range d.Script {
			if st.E == "panic-str" || st.E == "panic-err" {
				return true
			}
		}
	}
	return false
}

func crashVerdict(hp *histPlan, p Proc) *histVerdict {
	if p.DiedOfDevicePanic() && scriptPanics(hp) {
		return nil
	}
	if p.TimedOut {
		if slowNoVerdict != nil && slowNoVerdict() {
			return nil
		}
		return &histVerdict{Class: "hang", Key: "hang/" + histKey(hp.Ops, len(hp.Ops)), Detail: "the history did not finish within the time limit"}
	}
	if p.Exit != 0 {
		return &histVerdict{Class: "crash", Key: "crash/" + histKey(hp.Ops, len(hp.Ops)), Detail: "the process died: " + firstLine(p.Stderr)}
	}
	return nil
}

func countFired(res *histResult, st *c07Stats) {
	for _, rr := range res.Reads {
		st.devReads += len(rr)
		for _, rec := range rr {
			switch {
			case rec.Err != "" && rec.Gave > 0:
				st.fired["with-bytes"]++
			case rec.Err != "":
				st.fired[rec.Err]++
			case rec.Gave == 0 && rec.Asked > 0:
				st.fired["stall"]++
			case rec.Gave < rec.Asked:
				st.fired["short"]++
			}
		}
	}
}

// judge runs a plan in its configuration and applies the C07 oracle.
func (g *c07Engine) judge(cp *c07Plan, st *c07Stats) (*histVerdict, error) {
	hp := &cp.Hist
	hk := histKey(hp.Ops, len(hp.Ops))
	if cp.Mode == "real" {
		res, p, err := g.runHist(g.src, hp, cp.Env...)
		if err != nil {
			return nil, err
		}
		st.procs++
		if v := crashVerdict(hp, p); v != nil {
			return v, nil
		}
		st.idChecks += res.IdChecks
		if len(res.IdBad) > 0 {
			return &histVerdict{Class: "identity", Key: "identity/real/at=" + strconv.Itoa(res.IdBad[0]) + "/" + hk,
				Detail: fmt.Sprintf("with nothing swapped, after step %d (-1 = before the first call) %s", res.IdBad[0], res.IdInfo)}, nil
		}
		var ones [128]int
		decoded := 0
		for i, o := range res.Outcomes {
			op := &hp.Ops[i]
			if op.K == "new" && ref.ValidWordCount(op.N) && (!o.IsNil || o.Panic != "") {
				return &histVerdict{Class: "unusable", OpIdx: i, Key: "unusable/" + hk,
					Detail: fmt.Sprintf("op %d NewMnemonic(%d, lang %d) on the default (real OS) source did not succeed: %s%s", i, op.N, op.Lang, o.Err, o.Panic)}, nil
			}
			if op.K == "new" && o.IsNil && ref.ValidWordCount(op.N) {
				st.newOK++
				st.realOutputs = append(st.realOutputs, fmt.Sprintf("%d/%d/%s", op.N, op.Lang, o.Out))
				if ref.Supported(op.Lang) {
					m, _ := strconv.Unquote(o.Out)
					if ent, _, derr := ref.Decode(m, op.Lang); derr == nil && len(ent) >= 16 {
						decoded++
						for b := 0; b < 128; b++ {
							ones[b] += int(ent[b/8]>>(7-uint(b%8))) & 1
						}
					}
				}
			}
		}
		// long processes on the real source: no bit position of the first 128 entropy bits may be stuck or
		// grossly biased (7 sigma: false-alarm probability about 3e-10 per history)
		if decoded >= 1000 {
			st.statHistories++
			sigma := math.Sqrt(float64(decoded)) / 2
			for b := 0; b < 128; b++ {
				if dev := math.Abs(float64(ones[b]) - float64(decoded)/2); dev > 7*sigma {
					return &histVerdict{Class: "biased", Key: fmt.Sprintf("biased/bit=%d", b),
						Detail: fmt.Sprintf("over %d default-source mnemonics of one process, entropy bit %d is set %d times (expected %d +- %.0f): the output is not a function of the OS source's bytes only", decoded, b, ones[b], decoded/2, 7*sigma)}, nil
				}
			}
		}
		return nil, nil
	}
	// preinit: the OS device is the simulator
	res, p, err := g.runHist(g.cold, hp, cp.Env...)
	if err != nil {
		return nil, err
	}
	st.procs++
	if v := crashVerdict(hp, p); v != nil {
		return v, nil
	}
	countFired(res, st)
	st.digest = strDigest(mustJSON(res.Outcomes) + res.Stream)
	st.idChecks += res.IdChecks
	if len(res.IdBad) > 0 {
		return &histVerdict{Class: "identity", Key: "identity/preinit/at=" + strconv.Itoa(res.IdBad[0]) + "/" + hk,
			Detail: fmt.Sprintf("after step %d %s", res.IdBad[0], res.IdInfo)}, nil
	}
	stream, _ := hex.DecodeString(res.Stream)
	cursor := 0
	for i, o := range res.Outcomes {
		op := &hp.Ops[i]
		if op.K != "new" || !ref.ValidWordCount(op.N) || !ref.Supported(op.Lang) {
			continue
		}
		need := op.N + op.N/3
		devPanicked := false
		for _, rec := range res.Reads[i] {
			devPanicked = devPanicked || rec.Err == "panic-str" || rec.Err == "panic-err"
		}
		if o.Panic != "" && devPanicked {
			st.newFail++
			continue // the source itself panicked; letting it through is fail-closed
		}
		if o.Panic != "" {
			return &histVerdict{Class: "panic", OpIdx: i, Key: "panic/" + hk, Detail: fmt.Sprintf("op %d NewMnemonic(%d, lang %d) panicked: %s", i, op.N, op.Lang, o.Panic)}, nil
		}
		faulted := false
		for _, rec := range res.Reads[i] {
			if rec.Err != "" || (rec.Gave == 0 && rec.Asked > 0) {
				faulted = true
			}
		}
		if !o.IsNil {
			st.newFail++
			if !faulted {
				return &histVerdict{Class: "spurious", OpIdx: i, Key: "spurious/" + hk,
					Detail: fmt.Sprintf("op %d NewMnemonic(%d, lang %d) failed with %s although the OS source delivered without any fault (reads %s)", i, op.N, op.Lang, o.Err, mustJSON(res.Reads[i]))}, nil
			}
			continue
		}
		st.newOK++
		m, _ := strconv.Unquote(o.Out)
		ent, ok, derr := ref.Decode(m, op.Lang)
		if derr != nil || !ok || len(ent) != need {
			return &histVerdict{Class: "foreign", OpIdx: i, Key: "foreign/" + hk,
				Detail: fmt.Sprintf("op %d NewMnemonic(%d, lang %d) returned %s, which is not a BIP39 sentence of %d entropy bytes (%v)", i, op.N, op.Lang, o.Out, need, derr)}, nil
		}
		idx := bytes.Index(stream[cursor:], ent)
		if idx < 0 {
			return &histVerdict{Class: "foreign", OpIdx: i, Key: "foreign/" + hk,
				Detail: fmt.Sprintf("op %d NewMnemonic(%d, lang %d): the entropy %x behind the result is not an unused run of the bytes the OS source delivered (delivered during the call: %s)", i, op.N, op.Lang, ent, res.Delivered[i])}, nil
		}
		cursor += idx + need
	}
	// (ii) same stream, another process in another environment: same outcomes
	res2, p2, err := g.runHist(g.cold, hp, append(append([]string{}, cp.Env...), "GOMAXPROCS=1", "BIP39_VERIF_NOISE="+strconv.FormatInt(time.Now().UnixNano(), 10), "TZ=Pacific/Kiritimati")...)
	if err != nil {
		return nil, err
	}
	st.procs++
	if v := crashVerdict(hp, p2); v != nil {
		return v, nil
	}
	for i := range res.Outcomes {
		if i >= len(res2.Outcomes) || !res.Outcomes[i].Equal(res2.Outcomes[i]) {
			return &histVerdict{Class: "nondeterministic", OpIdx: i, Key: "nondeterministic/" + hk,
				Detail: fmt.Sprintf("op %d %s: the same device stream gave %s in one process and a different outcome in another (pid, time, environment, GOMAXPROCS differ)", i, opBrief(&hp.Ops[i]), mustJSON(res.Outcomes[i]))}, nil
		}
	}
	// (iii) another stream: every successful NewMnemonic output changes
	alt := *hp
	d := *hp.Dev
	d.Seed ^= 0x5DEECE66D
	if d.Hex != "" {
		b, _ := hex.DecodeString(d.Hex)
		for i := range b {
			b[i] ^= 0xA7
		}
		d.Hex = hex.EncodeToString(b)
	}
	if d.Fill != "" && d.Fill != "prng" {
		d.Fill = "prng"
	}
	alt.Dev = &d
	if hp.Dev.Fill == "" || hp.Dev.Fill == "prng" {
		res3, p3, err := g.runHist(g.cold, &alt, cp.Env...)
		if err != nil {
			return nil, err
		}
		st.procs++
		if v := crashVerdict(hp, p3); v != nil {
			return v, nil
		}
		for i, o := range res.Outcomes {
			op := &hp.Ops[i]
			if op.K == "new" && o.IsNil && o.Out != `""` && i < len(res3.Outcomes) && res3.Outcomes[i].IsNil && res3.Outcomes[i].Out == o.Out {
				return &histVerdict{Class: "insensitive", OpIdx: i, Key: "insensitive/" + hk,
					Detail: fmt.Sprintf("op %d NewMnemonic(%d, lang %d) returned the same mnemonic %s for two different device streams", i, op.N, op.Lang, o.Out)}, nil
			}
		}
	}
	return nil, nil
}

func toC07Plan(pl interface{}) (*c07Plan, error) {
	var cp c07Plan
	b, err := json.Marshal(pl)
	if err != nil {
		return nil, err
	}
	return &cp, json.Unmarshal(b, &cp)
}

func (g *c07Engine) violation(cp *c07Plan, v *histVerdict) *Violation {
	return &Violation{Property: "C07", Class: v.Class, Key: v.Key, Detail: v.Detail, Engine: "coldsim", Plan: cp}
}

// realTries: configuration A runs with NOTHING simulated, so what varies between two
// executions of the same plan (pid, wall clock, address space, real entropy) is
// exactly the space "every process start" quantifies over and is behind no seam.
// A replay of such a plan therefore means: start it up to realTries times.
const realTries = 48

func (g *c07Engine) judgeN(cp *c07Plan, st *c07Stats) (*histVerdict, error) {
	n := 1
	if cp.Mode == "real" {
		n = realTries
	}
	for i := 0; i < n; i++ {
		v, err := g.judge(cp, st)
		if err != nil || v != nil {
			return v, err
		}
	}
	return nil, nil
}

func (g *c07Engine) Reproduce(pl interface{}) (*Violation, error) {
	cp, err := toC07Plan(pl)
	if err != nil {
		return nil, err
	}
	st := &c07Stats{fired: map[string]int{}}
	v, err := g.judgeN(cp, st)
	if err != nil || v == nil {
		return nil, err
	}
	return g.violation(cp, v), nil
}

func (g *c07Engine) Minimise(v *Violation) *Violation {
	cp, err := toC07Plan(v.Plan)
	if err != nil {
		return v
	}
	st := &c07Stats{fired: map[string]int{}}
	if cp.Mode == "real" {
		// the only candidate worth the many process starts: no calls at all (identity before the first call)
		t := *cp
		t.Hist.Ops = nil
		if got, err := g.judgeN(&t, st); err == nil && got != nil && got.Class == v.Class {
			return g.violation(&t, got)
		}
		return v
	}
	sub := func(keep []int) *c07Plan {
		t := *cp
		t.Hist.Ops = nil
		for _, i := range keep {
			t.Hist.Ops = append(t.Hist.Ops, cp.Hist.Ops[i])
		}
		return &t
	}
	keep := DDMin(len(cp.Hist.Ops), func(k []int) bool {
		got, err := g.judge(sub(k), st)
		return err == nil && got != nil && got.Class == v.Class
	}, 200, 60*time.Second)
	best := sub(keep)
	if best.Hist.Dev != nil && len(best.Hist.Dev.Script) > 0 {
		sc := best.Hist.Dev.Script
		k2 := DDMin(len(sc), func(k []int) bool {
			t := *best
			d := *best.Hist.Dev
			d.Script = nil
			for _, i := range k {
				d.Script = append(d.Script, sc[i])
			}
			t.Hist.Dev = &d
			got, err := g.judge(&t, st)
			return err == nil && got != nil && got.Class == v.Class
		}, 100, 30*time.Second)
		d := *best.Hist.Dev
		d.Script = nil
		for _, i := range k2 {
			d.Script = append(d.Script, sc[i])
		}
		best.Hist.Dev = &d
	}
	got, err := g.judge(best, st)
	if err != nil || got == nil || got.Class != v.Class {
		return v
	}
	return g.violation(best, got)
}

// c07Op draws a call for a C07 history: NewMnemonic-heavy, no per-op device.
func c07Op(rng *plan.Rand) plan.Op {
	if rng.Intn(100) < 55 {
		n := wordCounts[rng.Intn(5)]
		if rng.Intn(10) == 0 {
			n = []int{0, -3, 9, 13, 25, 27}[rng.Intn(6)]
		}
		lang := rng.Intn(ref.NumLang)
		if rng.Intn(15) == 0 {
			lang = UnsupportedLangs[rng.Intn(len(UnsupportedLangs))]
		}
		return plan.Op{K: "new", N: n, Lang: lang}
	}
	for {
		op := GenOp(rng, AllLangs)
		if op.K != "new" {
			op.Scribble, op.Cap = false, 0
			return op
		}
	}
}

func procScript(rng *plan.Rand, news int) []plan.DevStep {
	var s []plan.DevStep
	if rng.Intn(4) == 0 {
		return nil // a fault-free process
	}
	for i := 0; i < news*2+2; i++ {
		switch x := rng.Intn(20); {
		case x < 13:
			s = append(s, plan.DevStep{D: 64, G: rng.Intn(6) == 0}) // a full read (sometimes one during which a GC cycle completes)
		case x < 16:
			s = append(s, plan.DevStep{D: rng.Range(1, 15), G: rng.Intn(6) == 0})
		case x < 17:
			s = append(s, plan.DevStep{})
		case x < 19:
			if rng.Intn(9) == 0 { // a dying device: Read panics
				s = append(s, plan.DevStep{E: []string{"panic-str", "panic-err"}[rng.Intn(2)]})
			} else if rng.Intn(3) == 0 { // a burst of transient failures, as a device under load gives them
				for b := 0; b < rng.Range(2, 5); b++ {
					s = append(s, plan.DevStep{E: []string{"temp", "eagain", "eintr"}[rng.Intn(3)]})
				}
			} else {
				s = append(s, plan.DevStep{E: []string{"eof", "ueof", "err", "weof", "closed", "temp", "eagain", "eintr", "isall", "wisall"}[rng.Intn(10)]})
			}
		default:
			s = append(s, plan.DevStep{D: rng.Range(1, 15), E: []string{"eof", "err", "temp", "eagain"}[rng.Intn(4)]})
		}
	}
	return s
}

// CheckC07 - the default source is the OS CSPRNG and nothing else.
func CheckC07(e *Env) (int, error) {
	if err := e.CopyRepo(); err != nil {
		return 2, err
	}
	src, err := e.BuildHarness("./harness/srcsim", "srcsim")
	if err != nil {
		return 2, err
	}
	cold, err := e.BuildHarness("./harness/coldsim", "coldsim")
	if err != nil {
		return 2, err
	}
	g := &c07Engine{e: e, src: src, cold: cold}
	slowNoVerdict = func() bool { return e.SlowIsNoVerdict("go", "a cold-start history") }
	nReal, nSim := 1200, 1200
	if e.Tier == "thorough" {
		nReal, nSim = 60000, 60000
	}
	var plans []*c07Plan
	mk := func(mode string, i int) *c07Plan {
		r := plan.NewRand(plan.Derive(e.Seed, "C07/"+mode, uint64(i)))
		var ops []plan.Op
		if i < 50 { // every (n, language) as the first call of a process
			ops = append(ops, plan.Op{K: "new", N: wordCounts[i%5], Lang: i / 5})
		}
		n := r.Range(1, 40)
		if r.Intn(3) == 0 {
			n = r.Range(1, 4)
		}
		for len(ops) < n {
			ops = append(ops, c07Op(r))
		}
		if mode == "real" && i%4 == 0 { // two default 24-word outputs in one process
			ops = append(ops, plan.Op{K: "new", N: 24, Lang: 2}, plan.Op{K: "new", N: 24, Lang: 2})
		}
		if r.Intn(4) == 0 { // process uptime and idle periods (clock seam): simulated time passes before some calls
			for j := 0; j < r.Range(1, 2); j++ {
				ops[r.Intn(len(ops))].J = JumpVals[r.Intn(len(JumpVals))]
			}
		}
		hp := histPlan{Source: mode, Identity: true, Ops: ops}
		if mode == "preinit" {
			news := 0
			for _, op := range ops {
				if op.K == "new" {
					news++
				}
			}
			hp.Dev = &plan.Dev{Seed: r.Uint64(), Script: procScript(r, news)}
			if r.Intn(12) == 0 {
				hp.Dev.Hex = hex.EncodeToString(make([]byte, r.Range(1, 40))) // a run of zero bytes first
			}
		}
		return &c07Plan{Mode: mode, Hist: hp}
	}
	for i := 0; i < nReal; i++ {
		plans = append(plans, mk("real", i))
	}
	for i := 0; i < nSim; i++ {
		plans = append(plans, mk("preinit", i))
	}
	// long processes: thousands of NewMnemonic calls on one simulated OS source (state that only shows at the Nth call)
	nLong := 8
	if e.Tier == "thorough" {
		nLong = 200
	}
	for i := 0; i < nLong; i++ {
		r := plan.NewRand(plan.Derive(e.Seed, "C07/long", uint64(i)))
		var ops []plan.Op
		for k := 0; k < 3000; k++ {
			ops = append(ops, plan.Op{K: "new", N: wordCounts[r.Intn(5)], Lang: r.Intn(ref.NumLang)})
			if r.Intn(500) == 0 {
				ops[k].J = JumpVals[r.Intn(len(JumpVals))]
			}
		}
		mode := []string{"preinit", "real"}[i%2]
		hp := histPlan{Source: mode, Identity: true, Ops: ops}
		if mode == "preinit" {
			hp.Dev = &plan.Dev{Seed: r.Uint64()}
		}
		plans = append(plans, &c07Plan{Mode: mode, Hist: hp})
	}
	// the environment as a configuration input: every variable the tree is seen to read is set, in turn,
	// to a few plausible values (a flag, a device path, a readable file) at process start
	envNames, envOpaque := instr.EnvNames(e.RepoCopy())
	envFile := filepath.Join(e.Scr, "envfile.bin")
	os.WriteFile(envFile, []byte(strings.Repeat("fixed content, not random\n", 200)), 0644)
	envRuns := 0
	idleN, idleMs := 0, int64(0)
	envVals := append([]string{"1", "true", "/dev/zero", envFile, "0"}, instr.EnvValueCandidates(e.RepoCopy())...)
	for _, name := range envNames {
		for _, val := range envVals {
			if val == name {
				continue
			}
			for k := 0; k < 6; k++ {
				for _, mode := range []string{"real", "preinit"} {
					cp := mk(mode, 100000+envRuns)
					cp.Env = []string{name + "=" + val}
					plans = append(plans, cp)
					envRuns++
				}
			}
		}
	}
	var mu sync.Mutex
	tot := &c07Stats{fired: map[string]int{}}
	var viols []*Violation
	var trouble error
	distinct := map[string]bool{}
	firstCalls := map[string]bool{}
	var samples []interface{}
	totalOps := 0
	var od OrderedDigest
	e.Logf("C07: %d cold-start histories (%d with the real source, %d with the OS source simulated)", len(plans), nReal, nSim)
	e.Parallel(len(plans), func(i int) {
		cp := plans[i]
		st := &c07Stats{fired: map[string]int{}}
		v, err := g.judge(cp, st)
		mu.Lock()
		defer mu.Unlock()
		if err != nil {
			if trouble == nil {
				trouble = err
			}
			return
		}
		od.Add(i, st.digest)
		tot.idChecks += st.idChecks
		tot.statHistories += st.statHistories
		tot.newOK += st.newOK
		tot.newFail += st.newFail
		tot.devReads += st.devReads
		tot.procs += st.procs
		addMap(tot.fired, st.fired)
		tot.realOutputs = append(tot.realOutputs, st.realOutputs...)
		totalOps += len(cp.Hist.Ops)
		for _, op := range cp.Hist.Ops {
			if op.J != 0 {
				idleN++
				idleMs += op.J
			}
		}
		if f := cp.Hist.Ops[0]; f.K == "new" {
			firstCalls[fmt.Sprintf("%s/%d/%d", cp.Mode, f.N, f.Lang)] = true
		}
		if st.newOK >= 1 && (cp.Mode == "real" || st.newFail >= 1) {
			distinct[cp.Mode+histKey(cp.Hist.Ops, len(cp.Hist.Ops))+plan.Digest(cp.Hist.Dev)] = true
		}
		if v != nil {
			viols = append(viols, g.violation(cp, v))
		}
		if len(samples) < 4 && i%601 == 0 && len(cp.Hist.Ops) <= 40 {
			samples = append(samples, cp)
		}
	})
	if trouble != nil {
		return 2, trouble
	}
	// side condition on the real device: no default output ever repeats
	sort.Strings(tot.realOutputs)
	for i := 1; i < len(tot.realOutputs); i++ {
		if tot.realOutputs[i] == tot.realOutputs[i-1] {
			viols = append(viols, &Violation{Property: "C07", Class: "repeat", Key: "repeat/default-output", Engine: "coldsim",
				Detail: "two NewMnemonic calls on the default source returned the same mnemonic: " + tot.realOutputs[i],
				Plan:   &c07Plan{Mode: "real", Hist: histPlan{Source: "real", Identity: true, Ops: []plan.Op{{K: "new", N: 24, Lang: 2}, {K: "new", N: 24, Lang: 2}}}}})
			break
		}
	}
	sort.Slice(viols, func(a, b int) bool { return len(mustJSON(viols[a].Plan)) < len(mustJSON(viols[b].Plan)) })
	code, reported := e.Report("C07", viols, g)
	cov := map[string]interface{}{
		"evaluations":                            len(plans),
		"distinct_nontrivial":                    len(distinct),
		"rule":                                   "a case = one cold-start history of 1-40 calls in a fresh process. Configuration A: nothing simulated, the identity of the source (== crypto/rand.Reader) re-read after every step. Configuration B: crypto/rand.Reader replaced before package init by the simulated device (scripted faults over the whole process), identity re-read after every step, every successful NewMnemonic decoded by the reference decoder and matched against an unused run of the delivered stream, the history repeated in a second process (other pid/time/env/GOMAXPROCS: same outcomes) and with another stream (every successful output differs). Non-trivial: >= 1 successful NewMnemonic and, in B, >= 1 NewMnemonic that met a device fault; distinct by digest of (configuration, calls, device).",
		"exhaustive":                             false,
		"samples":                                samples,
		"runs":                                   len(plans),
		"worker_processes":                       tot.procs,
		"sim_steps_total":                        totalOps,
		"sim_time_note":                          "the unchanged tree reads no clock, so simulated time is counted in history operations; a tree that imports \"time\" gets Now/Since/Until from the clock seam, which the simulator moves forward in jumps (idle periods of 50 ms to 400 d before calls)",
		"clock_seam_files":                       e.ClockFiles("go"),
		"simulated_idle_periods":                 idleN,
		"simulated_idle_ms_total":                idleMs,
		"identity_rereads":                       tot.idChecks,
		"newmnemonic_success":                    tot.newOK,
		"newmnemonic_failed_on_fault":            tot.newFail,
		"device_reads":                           tot.devReads,
		"faults_fired":                           tot.fired,
		"default_source_outputs_compared":        len(tot.realOutputs),
		"probes":                                 map[string]int{"n_language_pairs_seen_as_first_call": len(firstCalls)},
		"environment_variables_read_by_the_tree": envNames,
		"environment_reads_with_opaque_names":    envOpaque,
		"histories_with_environment_set":         envRuns,
		"long_histories_of_3000_calls":           nLong,
		"real_source_histories_bit_frequency_tested": tot.statHistories,
		"raw_violations":                       len(viols),
		"outcome_digest_simulated_source_runs": od.String(),
	}
	if err := e.WriteEvidence("C07", "exploration", cov, []string{
		"package initialisation order puts a0verif/harness/presim before github.com/islishude/bip39 (self-checked by every coldsim worker: SEAM-FAILED otherwise)",
		"reference BIP39 decoder in /verif/ref",
		"nothing is claimed about the quality of the real OS entropy device",
	}, reported); err != nil {
		return 2, err
	}
	e.Logf("C07: %d histories in %d processes, %d distinct non-trivial, %d raw violations", len(plans), tot.procs, len(distinct), len(viols))
	return code, nil
}
