package drv

import (
	"encoding/json"
	"fmt"
	"os"
	"path/filepath"
	"time"
)

type Evidence struct {
	PropertyID  string                 `json:"property_id"`
	Tier        string                 `json:"tier"`
	Seed        int64                  `json:"seed"`
	Level       string                 `json:"level"`
	Coverage    map[string]interface{} `json:"coverage"`
	Assumptions []string               `json:"assumptions"`
	WallS       float64                `json:"wall_s"`
	Violations  int                    `json:"violations"`
}

var Components = map[string]interface{}{
	"real": []string{"all of package github.com/islishude/bip39 built from the current working tree", "golang.org/x/text/unicode/norm", "golang.org/x/crypto/pbkdf2", "crypto/sha256", "math/big", "io.ReadFull", "sync.Once objects (real, wrapped)", "Go runtime", "race detector (C12)", "html/template and os file I/O (C17)"},
	"stub": []string{"OS CSPRNG (simulated entropy device)", "goroutine scheduling decisions (seeded cooperative scheduler, C12)", "HTTP upstream (in-process file transport, C17)"},
}

func (e *Env) WriteEvidence(id, level string, cov map[string]interface{}, assumptions []string, violations int) error {
	wall := time.Since(e.Start).Seconds()
	if r, ok := cov["runs"]; ok {
		if n, ok := r.(int); ok && wall > 0 {
			cov["runs_per_hour"] = int(float64(n) / wall * 3600)
		}
	}
	cov["components"] = Components
	cov["seeds"] = map[string]interface{}{"verif_seed": int64(e.Seed), "derivation": "every case/run i draws all its choices from splitmix64(VERIF_SEED, property, stream name, i)"}
	cov["repo_tree"] = e.Repo
	ev := Evidence{PropertyID: id, Tier: e.Tier, Seed: int64(e.Seed), Level: level, Coverage: cov, Assumptions: assumptions, WallS: wall, Violations: violations}
	dir := "evidence"
	if e.Repo != "/repo" { // a run against another tree (mutant testing) must never overwrite the evidence about /repo
		dir = "evidence-other-tree"
	}
	return WriteFileJSON(filepath.Join(e.Home, dir, id+".json"), ev)
}

// OrderedDigest combines per-case digests keyed by the case index: the result does
// not depend on the order in which parallel workers finish.
type OrderedDigest struct{ acc uint64 }

func dmix(z uint64) uint64 {
	z += 0x9E3779B97F4A7C15
	z = (z ^ (z >> 30)) * 0xBF58476D1CE4E5B9
	z = (z ^ (z >> 27)) * 0x94D049BB133111EB
	return z ^ (z >> 31)
}

func (o *OrderedDigest) Add(i int, d uint64) { o.acc ^= dmix(dmix(uint64(i)) ^ d) }
func (o *OrderedDigest) String() string      { return fmt.Sprintf("%016x", o.acc) }

func strDigest(s string) uint64 {
	h := uint64(0xcbf29ce484222325)
	for i := 0; i < len(s); i++ {
		h = (h ^ uint64(s[i])) * 0x100000001b3
	}
	return h
}

// Finding is one entry of known-findings.json.
type Finding struct {
	Property string `json:"property,omitempty"`
	Key      string `json:"key,omitempty"`
	What     string `json:"what,omitempty"`
	Fixed    string `json:"fixed,omitempty"`
}

func (e *Env) KnownFindings(id string) (map[string]string, error) {
	b, err := os.ReadFile(filepath.Join(e.Home, "known-findings.json"))
	if err != nil {
		return nil, Troublef("known-findings.json: %v", err)
	}
	var fs []Finding
	if err := json.Unmarshal(b, &fs); err != nil {
		return nil, Troublef("known-findings.json: %v", err)
	}
	m := map[string]string{}
	for _, f := range fs {
		if f.Property == id && f.Key != "" && f.Fixed == "" {
			m[f.Key] = f.What
		}
	}
	return m, nil
}

// Violation is what a check reports; Key identifies the specific failing case
// for the known-findings file, Plan is the replayable plan.
type Violation struct {
	Property string      `json:"property"`
	Class    string      `json:"class"`
	Key      string      `json:"key"`
	Detail   string      `json:"detail"`
	Engine   string      `json:"engine"`
	Plan     interface{} `json:"plan"`
}

type ReplayFile struct {
	Format    int             `json:"format"`
	Property  string          `json:"property"`
	Engine    string          `json:"engine"`
	VerifSeed int64           `json:"verif_seed"`
	Tier      string          `json:"tier"`
	Violation Violation       `json:"violation"`
	Plan      json.RawMessage `json:"plan"`
	Minimised bool            `json:"minimised"`
	Note      string          `json:"note,omitempty"`
}

var replayCtr int

func (e *Env) WriteReplay(v *Violation, minimised bool, note string) (string, error) {
	pb, err := json.Marshal(v.Plan)
	if err != nil {
		return "", err
	}
	rf := ReplayFile{Format: 1, Property: v.Property, Engine: v.Engine, VerifSeed: int64(e.Seed), Tier: e.Tier, Violation: *v, Plan: pb, Minimised: minimised, Note: note}
	rf.Violation.Plan = nil
	replayCtr++
	p := filepath.Join(e.Home, "replays", fmt.Sprintf("%s-%d-%d.json", v.Property, int64(e.Seed), replayCtr))
	return p, WriteFileJSON(p, rf)
}
