package drv

import (
	"testing"
	"time"
)

func TestDDMinFindsMinimalPair(t *testing.T) {
	// the "failure" needs elements 3 and 11 to be present
	keep := DDMin(16, func(k []int) bool {
		has3, has11 := false, false
		for _, i := range k {
			has3 = has3 || i == 3
			has11 = has11 || i == 11
		}
		return has3 && has11
	}, 1000, 10*time.Second)
	if len(keep) != 2 || keep[0] != 3 || keep[1] != 11 {
		t.Fatalf("got %v", keep)
	}
}

func TestDDMinEmptyAndBudget(t *testing.T) {
	if k := DDMin(0, func([]int) bool { return true }, 10, time.Second); len(k) != 0 {
		t.Fatal(k)
	}
	// never reproducible: everything stays
	if k := DDMin(5, func([]int) bool { return false }, 100, time.Second); len(k) != 5 {
		t.Fatal(k)
	}
}

func TestOrderedDigestIsOrderIndependentAndIndexSensitive(t *testing.T) {
	var a, b, c OrderedDigest
	a.Add(0, 7)
	a.Add(1, 9)
	b.Add(1, 9)
	b.Add(0, 7)
	c.Add(0, 9)
	c.Add(1, 7)
	if a.String() != b.String() {
		t.Fatal("order dependent")
	}
	if a.String() == c.String() {
		t.Fatal("index insensitive")
	}
}

const sampleRace = `==================
WARNING: DATA RACE
Read at 0x0000007f57e0 by goroutine 13:
  github.com/islishude/bip39.Language.mapping()
      github.com/islishude/bip39@v0.0.0/lang.go:111 +0x1a4
  github.com/islishude/bip39.CheckMnemonic()
      github.com/islishude/bip39@v0.0.0/mnemonic.go:29 +0x15c
  a0verif/harness/worker.Exec()
      a0verif/harness/worker/exec.go:93 +0x61b

Previous write at 0x0000007f57e0 by goroutine 9:
  runtime.mapassign_faststr()
      runtime/map_faststr.go:203 +0x0
  github.com/islishude/bip39.Language.mapping()
      github.com/islishude/bip39@v0.0.0/lang.go:116 +0x2c4
  github.com/islishude/bip39/zzsimrt.taskMain()
      github.com/islishude/bip39@v0.0.0/zzsimrt/sched.go:144 +0x3a

Goroutine 13 (running) created at:
  github.com/islishude/bip39/zzsimrt.(*Sched).Run()
      github.com/islishude/bip39@v0.0.0/zzsimrt/sched.go:170 +0x30a
==================
`

func TestParseRace(t *testing.T) {
	g := &c12Engine{mod: "github.com/islishude/bip39"}
	where, _, harnessOnly := g.parseRace(sampleRace)
	if harnessOnly || len(where) != 2 || where[0] != "lang.go:111" || where[1] != "lang.go:116" {
		t.Fatalf("%v %v", where, harnessOnly)
	}
	// a report whose stacks lie entirely in the harness is a simulator bug, not a verdict
	h := `WARNING: DATA RACE
Write at 0x1 by main goroutine:
  main.main()
      a0verif/harness/schedsim/main.go:174 +0x161b

Previous read at 0x1 by goroutine 11:
  main.main.func2()
      a0verif/harness/schedsim/main.go:126 +0x32a
  github.com/islishude/bip39/zzsimrt.taskMain()
      github.com/islishude/bip39@v0.0.0/zzsimrt/sched.go:159 +0x3a

`
	if _, _, harnessOnly := g.parseRace(h); !harnessOnly {
		t.Fatal("harness-only report not recognised")
	}
}

func TestToolInputExpected(t *testing.T) {
	in := &toolInput{Lines: []string{"", "a", "", "b", ""}, Trailing: true}
	if string(in.bytes()) != "\na\n\nb\n\n" {
		t.Fatalf("%q", in.bytes())
	}
	if e := in.expected(); len(e) != 2 || e[0] != "a" || e[1] != "b" {
		t.Fatal(e)
	}
}
