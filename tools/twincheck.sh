#!/bin/bash
# usage: tools/twincheck.sh <dir with good.diff bad.diff demo_test.go> <target Cxx> [other checks to run on good...]
# good.diff must be silent on every named check (target included); bad.diff must be caught by the target check.
set -u
D=$(readlink -f "$1"); T=$2; shift 2; OTHERS="$@"
export GOFLAGS=-mod=mod GOPROXY=off GOSUMDB=off GOTOOLCHAIN=local
NAME=$(grep -oE 'func (Test[A-Za-z0-9_]+)' "$D/demo_test.go" | grep -v "TestMain\|Child" | head -1 | awk '{print $2}')
RACE=""; grep -qi -- "-race" "$D/RUN.txt" 2>/dev/null && RACE="-race"
WT=""
setup() { # $1 = patch or ""
  WT=$(mktemp -d /tmp/twinwt.XXXXXX); git -C /repo worktree add -q --detach "$WT" HEAD || exit 2
  if [ -n "$1" ]; then git -C "$WT" apply "$1" || echo "PATCH-DOES-NOT-APPLY"; fi
  (cd "$WT" && go build ./... && go vet -tags verif ./... && go test -count=1 ./... >/dev/null 2>&1 && go test -tags verif -count=1 ./... >/dev/null 2>&1) && B=ok || B=FAILED
  DD=.; grep -q "^package main" "$D/demo_test.go" && DD=update-wordlist   # a demonstration of the tool lives next to it
  cp "$D/demo_test.go" "$WT/$DD/zz_demo_test.go"
  (cd "$WT" && timeout 900 go test $RACE -tags verif -run "^${NAME}\$" -count=1 ./$DD/ >/tmp/twin.demo.out 2>&1) && R=PASS || R=FAIL
  rm -f "$WT/$DD/zz_demo_test.go"
}
chk() {
  for ID in "$@"; do
    OUT=$(cd /verif && VERIF_C12_RUNS=${VERIF_C12_RUNS:-5000} VERIF_REPO="$WT" timeout 3600 ./bin/verif check "$ID" 2>&1); rc=$?
    echo "  check $ID exit=$rc $(echo "$OUT" | grep -E '^  class=' | head -1 | cut -c1-90)"
    [ $rc -eq 2 ] && echo "$OUT" | grep -E "TROUBLE|AUDIT|INCONCL|FLAKY" | head -3 | cut -c1-200
  done
}
done_() { git -C /repo worktree remove --force "$WT" 2>/dev/null; rm -rf "$WT"; }
setup ""; echo "unchanged: build/tests=$B demo=$R   (want PASS)"; done_
setup "$D/good.diff"; echo "good:      build/tests=$B demo=$R   (want demo=PASS, all checks exit=0)"; chk $T $OTHERS; done_
setup "$D/bad.diff"; echo "bad:       build/tests=$B demo=$R   (want demo=FAIL, check $T exit=1)"; chk $T; done_
