#!/bin/bash
# usage: tools/benigncheck.sh <patch.diff> [checks...]   (default: all six)
# Applies a behaviour-preserving refactoring in a scratch worktree, confirms the
# repository's tests pass, and runs the checks: every one must exit 0.
set -u
P=$(readlink -f "$1"); shift
CHECKS=${@:-C06 C07 C09 C13 C17 C12}
export GOFLAGS=-mod=mod GOPROXY=off GOSUMDB=off GOTOOLCHAIN=local
WT=$(mktemp -d /tmp/benwt.XXXXXX)
git -C /repo worktree add -q --detach "$WT" HEAD || exit 2
trap 'git -C /repo worktree remove --force "$WT" 2>/dev/null; rm -rf "$WT"' EXIT
git -C "$WT" apply "$P" || { echo "PATCH-DOES-NOT-APPLY"; exit 2; }
(cd "$WT" && go build ./... && go vet -tags verif ./... && go test -count=1 ./... >/dev/null 2>&1 && go test -race -tags verif -count=1 ./... > /dev/null 2>&1) && echo "repo build/vet/tests(+race): ok" || echo "repo build/vet/tests: FAILED"
cd /verif
for ID in $CHECKS; do
  OUT=$(VERIF_C12_RUNS=${VERIF_C12_RUNS:-5000} VERIF_REPO="$WT" timeout 3600 ./bin/verif check "$ID" 2>&1); rc=$?
  V=ok; [ $rc -ne 0 ] && V="FALSE-ALARM-OR-TROUBLE"
  echo "check $ID exit=$rc $V"
  [ $rc -ne 0 ] && echo "$OUT" | grep -v conda | grep -E "^VIOLATION|^  class=|^  [a-zA-Z]|TROUBLE|AUDIT|INCONCL|FLAKY" | cut -c1-300 | head -8
done
