#!/bin/bash
# usage: tools/replaytest.sh <patch.diff> <Cxx>
# Finds a violation on the patched tree, then replays the file against the patched
# tree (must reproduce: exit 1) and against the unchanged tree (must not: exit 0).
set -u
P=$(readlink -f "$1"); ID=$2
WT=$(mktemp -d /tmp/mutwt.XXXXXX)
git -C /repo worktree add -q --detach "$WT" HEAD || exit 2
trap 'git -C /repo worktree remove --force "$WT" 2>/dev/null; rm -rf "$WT"' EXIT
git -C "$WT" apply "$P" || exit 2
cd /verif
OUT=$(VERIF_C12_SECONDS=${VERIF_C12_SECONDS:-20} VERIF_REPO="$WT" timeout 1800 ./bin/verif check "$ID" 2>/dev/null | grep -v conda)
F=$(echo "$OUT" | grep '^VIOLATION' | head -1 | sed 's/.*replay=//')
[ -z "$F" ] && { echo "NO-VIOLATION-FOUND"; exit 3; }
echo "found: $F"
VERIF_REPO="$WT" timeout 600 ./bin/verif replay "$F" 2>/dev/null | grep -E "^VIOLATION|^NOT-REPRODUCED|TROUBLE"; echo "replay on patched tree: exit=${PIPESTATUS[0]}"
timeout 600 ./bin/verif replay "$F" 2>/dev/null | grep -E "^VIOLATION|^NOT-REPRODUCED|TROUBLE"; echo "replay on unchanged tree: exit=${PIPESTATUS[0]}"
