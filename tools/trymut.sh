#!/bin/bash
# usage: tools/trymut.sh <patch.diff> <check id> [tier]
# Applies a patch in a scratch worktree of /repo (never in /repo), confirms the
# repo's own tests still pass there, runs one check against it, removes the worktree.
set -u
P=$(readlink -f "$1"); ID=$2; TIER=${3:-quick}
WT=$(mktemp -d /tmp/mutwt.XXXXXX)
export GOFLAGS=-mod=mod GOPROXY=off GOSUMDB=off GOTOOLCHAIN=local
git -C /repo worktree add -q --detach "$WT" HEAD || exit 2
trap 'git -C /repo worktree remove --force "$WT" 2>/dev/null; rm -rf "$WT"' EXIT
git -C "$WT" apply "$P" || { echo "PATCH-DOES-NOT-APPLY"; exit 2; }
(cd "$WT" && go build ./... && go test -count=1 ./... 2>&1 | grep -v "no test files" | tail -3)
cd /verif && VERIF_REPO="$WT" timeout 3600 ./bin/verif check "$ID" --tier "$TIER"
echo "check exit=$?"
