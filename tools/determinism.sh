#!/bin/bash
# Determinism self-test: every check is run several times with the same VERIF_SEED
# under different worker counts / GOMAXPROCS; the outcome digest in the evidence
# (a digest over every case's outcome, keyed by case index) must be identical.
# usage: tools/determinism.sh [seed] [checks...]
cd /verif
SEED=${1:-1}; shift
CHECKS=${@:-C06 C07 C09 C13 C17 C12}
BIN=${VERIF_BIN:-bin/verif}
rc=0
for ID in $CHECKS; do
  DIG=""
  for CFG in "16 " "5 GOMAXPROCS=3" "11 GOMAXPROCS=32"; do
    set -- $CFG
    OUT=$(env VERIF_SEED=$SEED VERIF_JOBS=$1 VERIF_C12_RUNS=${VERIF_C12_RUNS:-2500} ${2:-X=1} $BIN check $ID 2>&1); ec=$?
    D=$(python3 -c "
import json;c=json.load(open('evidence/$ID.json'))['coverage']
print(c.get('outcome_digest') or c.get('outcome_digest_simulated_source_runs'), c['evaluations'])")
    echo "$ID seed=$SEED jobs=$1 ${2:-} exit=$ec digest=$D"
    [ $ec -ne 0 ] && rc=1
    if [ -z "$DIG" ]; then DIG="$D"; elif [ "$DIG" != "$D" ]; then echo "DETERMINISM-MISMATCH $ID"; rc=1; fi
  done
done
exit $rc
