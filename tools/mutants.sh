#!/bin/bash
# Runs every mutant of mutants/table.tsv against its check (in scratch worktrees) and
# prints name, check, expectation, whether the repository's tests pass with it, and the result.
# usage: tools/mutants.sh [name-filter-regex]
set -u
cd /verif
export GOFLAGS=-mod=mod GOPROXY=off GOSUMDB=off GOTOOLCHAIN=local
FILTER=${1:-.}
printf "%-40s %-4s %-7s %-9s %-6s %s\n" mutant chk expect repotests exit verdict
while IFS=$'\t' read -r NAME CHK EXP; do
  echo "$NAME" | grep -qE "$FILTER" || continue
  WT=$(mktemp -d /tmp/mutwt.XXXXXX)
  git -C /repo worktree add -q --detach "$WT" HEAD || exit 2
  if ! git -C "$WT" apply "/verif/mutants/$NAME.diff" 2>/dev/null; then
    printf "%-40s %-4s %-7s %s\n" "$NAME" "$CHK" "$EXP" "PATCH-DOES-NOT-APPLY"
    git -C /repo worktree remove --force "$WT"; continue
  fi
  (cd "$WT" && go build ./... >/dev/null 2>&1 && go test -count=1 ./... >/dev/null 2>&1) && RT=pass || RT=FAIL
  OUT=$(VERIF_C12_SECONDS=${VERIF_C12_SECONDS:-40} VERIF_REPO="$WT" timeout 3600 ./bin/verif check "$CHK" 2>/dev/null); RC=$?
  CLS=$(echo "$OUT" | grep -E "^  class=" | head -1 | cut -c1-70)
  V=ok
  if [ "$EXP" = catch ] && [ $RC -ne 1 ]; then V="MISSED"; fi
  if [ "$EXP" = silent ] && [ $RC -ne 0 ]; then V="FALSE-ALARM"; fi
  printf "%-40s %-4s %-7s %-9s %-6s %s %s\n" "$NAME" "$CHK" "$EXP" "$RT" "$RC" "$V" "$CLS"
  git -C /repo worktree remove --force "$WT" 2>/dev/null; rm -rf "$WT"
done < mutants/table.tsv
