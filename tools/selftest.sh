#!/bin/bash
# Unit tests of the framework's own parts (reference model against published vectors,
# device, delta debugging, race-report parser, instrumenter).
cd /verif && GOFLAGS=-mod=mod GOPROXY=off GOSUMDB=off GOTOOLCHAIN=local go test -count=1 ./ref ./drv ./instr ./harness/dev
