#!/bin/bash
# Regression over /verif/twins: for every pair the good twin must be silent and the bad twin caught.
cd /verif
for D in twins/*/; do
  ID=$(basename $D); P=${ID%%-*}
  CHK=$(python3 -c "import json;print(json.load(open('$D/meta.json'))['bad_caught_by'])")
  # the good twin must be silent on EVERY check of its side (library or tool), not only on those of its own pair:
  # two false alarms (C06 on C07-t1/C07-w2) hid for a day because only the pair's own checks were run (TWINS_FAST=1 restores that)
  OTHERS=""; [ "$CHK" != "$P" ] && OTHERS="$P"
  if [ -z "${TWINS_FAST:-}" ] && [ "$P" != C17 ]; then
    OTHERS=$(for c in C06 C07 C09 C13 C12; do [ "$c" != "$CHK" ] && printf "%s " "$c"; done)
  fi
  echo "=== $ID (bad must be caught by $CHK)"
  tools/twincheck.sh $D $CHK $OTHERS 2>&1 | grep -v conda
done
