#!/bin/bash
# Regression over /verif/twins: for every pair the good twin must be silent and the bad twin caught.
cd /verif
for D in twins/*/; do
  ID=$(basename $D); P=${ID%%-*}
  CHK=$(python3 -c "import json;print(json.load(open('$D/meta.json'))['bad_caught_by'])")
  OTHERS=""; [ "$CHK" != "$P" ] && OTHERS="$P"
  echo "=== $ID (bad must be caught by $CHK)"
  tools/twincheck.sh $D $CHK $OTHERS 2>&1 | grep -v conda
done
