#!/bin/bash
# Regression over /verif/seeded: every kept change is applied in a scratch worktree and
# run against the checks named in its meta.json (caught_by); each must exit 1.
cd /verif
printf "%-12s %-5s %-5s %s\n" seeded check exit class
for D in seeded/*/; do
  ID=$(basename $D)
  for CHK in $(python3 -c "import json;print(' '.join(json.load(open('$D/meta.json'))['caught_by']))"); do
    WT=$(mktemp -d /tmp/seedwt.XXXXXX)
    git -C /repo worktree add -q --detach "$WT" HEAD || exit 2
    git -C "$WT" apply "/verif/$D/patch.diff" 2>/dev/null || { echo "$ID PATCH-DOES-NOT-APPLY"; git -C /repo worktree remove --force "$WT"; continue; }
    OUT=$(VERIF_C12_RUNS=${VERIF_C12_RUNS:-5000} VERIF_REPO="$WT" timeout 3600 ./bin/verif check "$CHK" 2>/dev/null); RC=$?
    printf "%-12s %-5s %-5s %s\n" "$ID" "$CHK" "$RC" "$(echo "$OUT" | grep -E '^  class=' | head -1 | cut -c1-80)"
    git -C /repo worktree remove --force "$WT" 2>/dev/null; rm -rf "$WT"
  done
done
