#!/bin/bash
# Every breaking item of the corpora (seeded/, bad twins, own catch-mutants) once more under ANOTHER seed:
# detection must not hinge on VERIF_SEED=1. usage: tools/seed_robustness.sh <seed> [filter-regex]
cd /verif
SEED=${1:-11}; FILTER=${2:-.}
run() { # name patch check
  echo "$1" | grep -qE "$FILTER" || return
  WT=$(mktemp -d /tmp/rbwt.XXXXXX); git -C /repo worktree add -q --detach "$WT" HEAD || exit 2
  if git -C "$WT" apply "$2" 2>/dev/null; then
    OUT=$(VERIF_SEED=$SEED VERIF_REPO="$WT" timeout 3600 ./bin/verif check "$3" 2>/dev/null); RC=$?
    printf "%-44s %-4s seed=%s exit=%s %s\n" "$1" "$3" "$SEED" "$RC" "$(echo "$OUT" | grep -E '^  class=' | head -1 | cut -c1-60)"
  else
    echo "$1 PATCH-DOES-NOT-APPLY"
  fi
  git -C /repo worktree remove --force "$WT" 2>/dev/null; rm -rf "$WT"
}
for D in seeded/*/; do
  for CHK in $(python3 -c "import json;print(' '.join(json.load(open('$D/meta.json'))['caught_by']))"); do run "$(basename $D)" "/verif/$D/patch.diff" $CHK; done
done
for D in twins/*/; do
  CHK=$(python3 -c "import json;print(json.load(open('$D/meta.json'))['bad_caught_by'])")
  run "$(basename $D)-bad" "/verif/$D/bad.diff" $CHK
done
while IFS=$'\t' read -r NAME CHK EXP; do
  [ "$EXP" = catch ] && run "$NAME" "/verif/mutants/$NAME.diff" $CHK
done < mutants/table.tsv
