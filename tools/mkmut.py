#!/usr/bin/env python3
"""mkmut.py <out.diff> <file> <old> <new> [<file> <old> <new> ...]
Makes a patch against /repo HEAD by textual replacement in a scratch worktree."""
import subprocess, sys, tempfile, os, shutil
out = sys.argv[1]
wt = tempfile.mkdtemp(prefix="mkmut.", dir="/tmp")
subprocess.check_call(["git", "-C", "/repo", "worktree", "add", "-q", "--detach", wt, "HEAD"])
try:
    a = sys.argv[2:]
    for i in range(0, len(a), 3):
        f, old, new = a[i], a[i+1], a[i+2]
        p = os.path.join(wt, f)
        s = open(p, encoding="utf8").read() if os.path.exists(p) else ""
        if old == "":
            s = s + new
        else:
            if s.count(old) < 1:
                sys.exit("pattern not found in %s: %r" % (f, old))
            s = s.replace(old, new, 1)
        open(p, "w", encoding="utf8").write(s)
    subprocess.check_call(["git", "-C", wt, "add", "-A"])
    d = subprocess.check_output(["git", "-C", wt, "diff", "--cached"])
    open(out, "wb").write(d)
finally:
    subprocess.call(["git", "-C", "/repo", "worktree", "remove", "--force", wt])
    shutil.rmtree(wt, ignore_errors=True)
