#!/usr/bin/env python3
"""seedkeep.py <srcdir> <seed id> <property> <caught_by: comma list or 'none'> <verdict detail>
Copies a confirmed seeded change into /verif/seeded/<id>/ with meta.json."""
import json, os, shutil, sys
src, sid, prop, caught, detail = sys.argv[1:6]
dst = os.path.join("/verif/seeded", sid)
os.makedirs(dst, exist_ok=True)
for f in os.listdir(src):
    p = os.path.join(src, f)
    if os.path.isdir(p):
        shutil.copytree(p, os.path.join(dst, f), dirs_exist_ok=True)
    elif f != "notes.json":
        shutil.copy(p, dst)
notes = {}
if os.path.exists(os.path.join(src, "notes.json")):
    notes = json.load(open(os.path.join(src, "notes.json")))
meta = {
    "id": sid,
    "breaks_property": prop,
    "summary": notes.get("summary", ""),
    "needs_to_manifest": notes.get("needs", ""),
    "why_existing_tests_pass": notes.get("why_tests_pass", ""),
    "origin": "independent sub-agent given only the property text and a scratch worktree",
    "confirmed_by_me": "tools/seedcheck.sh in a scratch worktree of /repo: demonstration passes on the unchanged tree; patch applies; go build/vet (with and without -tags verif) ok; go test ./... (with and without -tags verif) passes; demonstration fails with the patch",
    "checks_run": "bin/verif check <id> --tier quick with VERIF_REPO=<patched scratch worktree>",
    "caught_by": [c for c in caught.split(",") if c and c != "none"],
    "verdict_detail": detail,
}
json.dump(meta, open(os.path.join(dst, "meta.json"), "w"), indent=1)
print("kept", dst)
