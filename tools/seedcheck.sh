#!/bin/bash
# usage: tools/seedcheck.sh <dir with patch.diff + demo_test.go|demo/> <Cxx> [more checks...]
# Confirms a seeded change in a scratch worktree (compiles, repo tests pass, demonstration
# fails with it and passes without it), then runs the named checks against it.
set -u
D=$(readlink -f "$1"); shift
export GOFLAGS=-mod=mod GOPROXY=off GOSUMDB=off GOTOOLCHAIN=local
WT=$(mktemp -d /tmp/seedwt.XXXXXX)
git -C /repo worktree add -q --detach "$WT" HEAD || exit 2
trap 'git -C /repo worktree remove --force "$WT" 2>/dev/null; rm -rf "$WT"' EXIT
demo() { # runs the demonstration in $WT; prints PASS/FAIL
  if [ -f "$D/demo_test.go" ]; then
    cp "$D/demo_test.go" "$WT/zz_demo_test.go"
    NAME=$(grep -oE 'func (Test[A-Za-z0-9_]+)' "$D/demo_test.go" | grep -v TestMain | head -1 | awk '{print $2}')
    (cd "$WT" && timeout 600 go test -tags verif -run "^${NAME}\$" -count=1 . >/tmp/seed.demo.out 2>&1); rc=$?
    rm -f "$WT/zz_demo_test.go"
  elif [ -x "$D/demo.sh" ]; then
    (cd "$WT" && timeout 600 "$D/demo.sh" "$WT" >/tmp/seed.demo.out 2>&1); rc=$?
  else
    mkdir -p "$WT/zzdemo" && cp -r "$D/demo/." "$WT/zzdemo/"
    (cd "$WT" && timeout 600 go run -tags verif ./zzdemo >/tmp/seed.demo.out 2>&1); rc=$?
    rm -rf "$WT/zzdemo"
  fi
  [ $rc -eq 0 ] && echo PASS || echo FAIL
}
echo "demo on unchanged tree: $(demo)   (want PASS)"
git -C "$WT" apply "$D/patch.diff" || { echo "PATCH-DOES-NOT-APPLY"; exit 2; }
(cd "$WT" && go build ./... && go vet ./... && go build -tags verif ./... && go vet -tags verif ./...) >/tmp/seed.build.out 2>&1 && echo "build+vet: ok" || { echo "build+vet: FAILED"; tail -5 /tmp/seed.build.out; }
(cd "$WT" && go test -count=1 ./... >/tmp/seed.t1 2>&1 && go test -tags verif -count=1 ./... >/tmp/seed.t2 2>&1) && echo "repo tests: ok" || { echo "repo tests: FAILED"; grep -E "^(---|FAIL)" /tmp/seed.t1 /tmp/seed.t2 | head -5; }
echo "demo on patched tree:   $(demo)   (want FAIL)"
cd /verif
for ID in "$@"; do
  OUT=$(VERIF_C12_SECONDS=${VERIF_C12_SECONDS:-45} VERIF_REPO="$WT" timeout 3600 ./bin/verif check "$ID" 2>/dev/null); rc=$?
  echo "check $ID exit=$rc ($(echo "$OUT" | grep -c '^VIOLATION') VIOLATION line(s))"
  echo "$OUT" | grep -E "^VIOLATION|^  class=|TROUBLE|BUILD|INCONCL" | cut -c1-220 | head -6
done
