#!/bin/bash
# Regression over /verif/benign: behaviour-preserving refactorings written by independent
# sub-agents; every check must exit 0 on every one of them.
cd /verif
for D in benign/*/; do
  echo "=== $(basename $D)"
  tools/benigncheck.sh $D/patch.diff "$@" 2>&1 | grep -v conda
done
