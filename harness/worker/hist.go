package worker

import (
	"strings"

	"bytes"
	"encoding/hex"
	"fmt"
	"runtime"
	"time"

	"a0verif/harness/dev"
	"a0verif/plan"
)

// HistPlan is one single-goroutine history from a cold start.
type HistPlan struct {
	Source   string    `json:"source"`        // hook | real | preinit
	Dev      *plan.Dev `json:"dev,omitempty"` // armed once for the whole process (ops then carry no device of their own)
	Ops      []plan.Op `json:"ops"`
	Identity bool      `json:"identity,omitempty"` // re-read the identity of the source after every step
	Hold     bool      `json:"hold,omitempty"`     // keep returned values and caller buffers and re-inspect them after every later step
}

type HistResult struct {
	ForcedGC   int              `json:"forced_gc,omitempty"`
	Outcomes   []plan.Outcome   `json:"outcomes"`
	Delivered  []string         `json:"delivered,omitempty"` // per op: hex of the bytes the device delivered during that op
	Reads      [][]plan.ReadRec `json:"reads,omitempty"`     // per op
	Stream     string           `json:"stream,omitempty"`    // everything the process-wide device delivered
	IdChecks   int              `json:"id_checks"`
	IdBad      []int            `json:"id_bad,omitempty"` // -1 = before the first op, i = after op i
	IdInfo     string           `json:"id_info,omitempty"`
	Altered    []string         `json:"altered,omitempty"`
	Scribbles  int              `json:"scribbles"`
	Reinspects int              `json:"reinspects"`
	Stopped    int              `json:"stopped_after_op,omitempty"` // a dying device ended the history after this op
}

// RunHist executes the plan. d is the device in front of NewMnemonic (nil for
// the real source); identity reports whether the current source is the expected one.
func RunHist(p *HistPlan, d *dev.Dev, identity func(lazyOK bool) (bool, string)) *HistResult {
	res := &HistResult{}
	// a source variable that is still nil is "not initialised yet" (lazy designs) as long as no
	// NewMnemonic call has produced a mnemonic in this process (a first call that failed or panicked
	// inside its one-off set-up may legitimately leave it nil)
	newDone := false
	checkID := func(at int) {
		if !p.Identity {
			return
		}
		res.IdChecks++
		if ok, info := identity(!newDone); !ok {
			res.IdBad = append(res.IdBad, at)
			if res.IdInfo == "" {
				res.IdInfo = info
			}
		}
	}
	if d != nil && p.Dev != nil {
		d.Arm(p.Dev)
	}
	checkID(-1)
	var held []Held
	for i := range p.Ops {
		op := &p.Ops[i]
		start, rstart := 0, 0
		if d != nil && op.Dev == nil {
			start, rstart = d.Pos, len(d.Log)
		}
		var armed *dev.Dev
		if op.Dev != nil {
			armed = d
		}
		o, h := Exec(op, armed)
		res.Outcomes = append(res.Outcomes, o)
		if op.K == "new" && op.N >= 12 && op.N <= 24 && op.N%3 == 0 && o.IsNil && o.Panic == "" {
			newDone = true // a mnemonic was produced: from now on the source variable must be the OS reader itself
		}
		if d != nil && op.K == "new" {
			res.Delivered = append(res.Delivered, hex.EncodeToString(d.Delivered[start:]))
			res.Reads = append(res.Reads, append([]plan.ReadRec(nil), d.Log[rstart:]...))
		} else {
			res.Delivered = append(res.Delivered, "")
			res.Reads = append(res.Reads, nil)
		}
		if op.GC { // memory pressure: finalizers, weak references and pools meet what the caller still holds
			runtime.GC()
			runtime.GC()
			time.Sleep(2 * time.Millisecond)
			res.ForcedGC++
		}
		checkID(i)
		if d != nil && len(d.Log) > 0 && strings.HasPrefix(d.Log[len(d.Log)-1].Err, "panic-") {
			// the source itself panicked inside this call: the simulated caller does not go on using the
			// library in this process (whatever the panic left half-done, e.g. a held lock, is not this property's business)
			res.Stopped = i
			break
		}
		if p.Hold {
			for _, k := range held {
				res.Reinspects++
				if k.Seed != nil && !bytes.Equal(k.Seed, k.SeedCpy) {
					res.Altered = append(res.Altered, fmt.Sprintf("seed returned by op %d was altered by op %d", k.OpIdx, i))
				}
				if k.Str != string(k.StrCpy) {
					res.Altered = append(res.Altered, fmt.Sprintf("string returned by op %d was altered by op %d", k.OpIdx, i))
				}
				if k.Ent != nil && !bytes.Equal(k.Ent, k.EntCpy) {
					res.Altered = append(res.Altered, fmt.Sprintf("entropy buffer passed to op %d was altered by op %d", k.OpIdx, i))
				}
			}
			h.OpIdx = i
			if op.Scribble {
				res.Scribbles++
				for j := range h.Ent {
					h.Ent[j] = 0xEE
				}
				for j := range h.Seed {
					h.Seed[j] = 0x77
				}
				h.Ent, h.Seed = nil, nil // the caller changed them itself; stop watching
			}
			// a re-armed device invalidates nothing the caller owns; keep watching
			held = append(held, h)
			if len(res.Altered) > 8 {
				break
			}
		}
	}
	if d != nil && p.Dev != nil {
		res.Stream = hex.EncodeToString(d.Delivered)
	}
	return res
}
