package worker

import (
	"fmt"
	"strconv"
	"strings"

	"a0verif/harness/dev"
	"a0verif/plan"
	"a0verif/ref"

	"github.com/islishude/bip39"
	"github.com/islishude/bip39/zzclock"
)

type C09Job struct {
	Kind   string   `json:"kind"` // counts, entropy
	Lo     int      `json:"lo"`
	Hi     int      `json:"hi"` // inclusive
	List   []int    `json:"list,omitempty"`
	Langs  []int    `json:"langs,omitempty"`
	States []string `json:"states,omitempty"`
	Seed   uint64   `json:"seed"`
}

type C09Case struct {
	Kind  string `json:"kind"`
	Count int    `json:"count,omitempty"`
	Len   int    `json:"len,omitempty"`
	Nil   bool   `json:"nil,omitempty"`
	Lang  int    `json:"lang"`
	State string `json:"state,omitempty"`
	Seed  uint64 `json:"seed,omitempty"`
	Idle  bool   `json:"idle,omitempty"` // ent: simulated time passes before the call (clock seam)
	J     int64  `json:"j,omitempty"`    // kind "idle": no call, J simulated milliseconds pass (stage-setting step of a replay plan)
}

type C09Viol struct {
	Case   C09Case      `json:"case"`
	Stage  []C09Case    `json:"stage,omitempty"` // earlier calls of the same process that may have set the stage: the last accepted size, the predecessor
	Class  string       `json:"class"`
	Detail string       `json:"detail"`
	Out    plan.Outcome `json:"outcome"`
}

type C09Result struct {
	Cases       int            `json:"cases"`
	CountCases  int            `json:"count_cases"`
	EntCases    int            `json:"entropy_cases"`
	Rejected    int            `json:"rejected"`
	Accepted    int            `json:"accepted"`
	ByState     map[string]int `json:"by_state"`
	Probes      map[string]int `json:"probes"`
	DistinctNT  int            `json:"distinct_nontrivial"`
	Viol        []C09Viol      `json:"violations,omitempty"`
	ViolCount   int            `json:"violation_count"`
	Samples     []C09Case      `json:"samples,omitempty"`
	SampleOut   []string       `json:"sample_outcomes,omitempty"`
	DeviceReads int            `json:"device_reads"`
	Digest      uint64         `json:"digest"`
	Verdicts    []C09Verdict   `json:"verdicts,omitempty"` // explicit jobs: one per case
}

type C09Verdict struct {
	Class  string       `json:"class,omitempty"`
	Detail string       `json:"detail,omitempty"`
	Out    plan.Outcome `json:"outcome"`
}

// idleMs: simulated idle periods before a call (just past plausible timeouts and sweep intervals)
var idleMs = []int64{1100, 5100, 61000, 301000, 3601000, 90000000, 34560000000}

func stateDev(state string, seed uint64) *plan.Dev {
	d := &plan.Dev{Seed: seed}
	switch state {
	case "work":
	case "frag":
		for i := 0; i < 48; i++ {
			d.Script = append(d.Script, plan.DevStep{D: 1 + i%3})
		}
	case "eof0":
		for i := 0; i < 4; i++ {
			d.Script = append(d.Script, plan.DevStep{E: "eof"})
		}
	case "err0":
		for i := 0; i < 4; i++ {
			d.Script = append(d.Script, plan.DevStep{E: "err"})
		}
	case "stall":
		for i := 0; i < 3; i++ {
			d.Script = append(d.Script, plan.DevStep{})
		}
	case "afterfail": // a working source; the call before this one met a source that failed part-way
	case "afteridle": // a working source; simulated time has passed since the previous call (clock seam)
	default:
		panic("c09: state " + state)
	}
	return d
}

func has(is []string, s string) bool {
	for _, x := range is {
		if x == s {
			return true
		}
	}
	return false
}

// JudgeCount applies the NewMnemonic half of the C09 oracle.
func JudgeCount(c *C09Case, o *plan.Outcome, d *dev.Dev) (string, string) {
	if o.Panic != "" {
		return "panic", "NewMnemonic(" + strconv.Itoa(c.Count) + ") panicked: " + o.Panic
	}
	m, _ := strconv.Unquote(o.Out)
	if !ref.ValidWordCount(c.Count) {
		if d.Pos != 0 {
			return "consumed", fmt.Sprintf("rejected count %d consumed %d bytes of randomness", c.Count, d.Pos)
		}
		if o.IsNil {
			return "accepted", fmt.Sprintf("count %d was accepted (returned %q, nil)", c.Count, m)
		}
		if m != "" {
			return "shape", fmt.Sprintf("count %d: non-empty string %q returned with an error", c.Count, m)
		}
		if !has(o.Is, "wordlen") {
			return "sentinel", fmt.Sprintf("count %d: error %s does not match ErrWordLen", c.Count, o.Err)
		}
		return "", ""
	}
	switch c.State {
	case "work", "frag", "afterfail", "afteridle":
		if !o.IsNil {
			return "rejected", fmt.Sprintf("count %d on a working source failed with %s", c.Count, o.Err)
		}
		if m == "" {
			return "shape", fmt.Sprintf("count %d: empty mnemonic with nil error", c.Count)
		}
		if ref.Supported(c.Lang) {
			if w := len(strings.Split(m, ref.Sep(c.Lang))); w != c.Count {
				return "words", fmt.Sprintf("count %d: result has %d words", c.Count, w)
			}
		}
	default: // failing or stalling source: only the shape is C09's business
		if o.IsNil && m == "" {
			return "shape", "empty mnemonic with nil error"
		}
		if !o.IsNil && m != "" {
			return "shape", "mnemonic returned together with an error"
		}
	}
	return "", ""
}

// JudgeEnt applies the NewMnemonicByEntropy half.
func JudgeEnt(c *C09Case, o *plan.Outcome) (string, string) {
	if o.Panic != "" {
		return "panic", fmt.Sprintf("NewMnemonicByEntropy(len %d) panicked: %s", c.Len, o.Panic)
	}
	m, _ := strconv.Unquote(o.Out)
	if ref.ValidEntLen(c.Len) && !c.Nil {
		if !o.IsNil {
			return "rejected", fmt.Sprintf("entropy length %d rejected with %s", c.Len, o.Err)
		}
		if m == "" {
			return "shape", "empty mnemonic with nil error"
		}
		return "", ""
	}
	if o.IsNil {
		return "accepted", fmt.Sprintf("entropy length %d accepted", c.Len)
	}
	if m != "" {
		return "shape", "non-empty string returned with an error"
	}
	if !has(o.Is, "entlen") {
		return "sentinel", fmt.Sprintf("entropy length %d: error %s does not match ErrEntropyLen", c.Len, o.Err)
	}
	return "", ""
}

// RunC09Case executes one case; used by bulk runs and by replay.
func RunC09Case(c *C09Case, d *dev.Dev) (o plan.Outcome, class, detail string) {
	defer func() {
		if p := recover(); p != nil {
			o = plan.Outcome{Panic: q(fmt.Sprint(p))}
			if c.Kind == "count" {
				class, detail = JudgeCount(c, &o, d)
			} else {
				class, detail = JudgeEnt(c, &o)
			}
		}
	}()
	if c.Kind == "idle" {
		zzclock.Jump(c.J)
		return
	}
	if c.Kind == "count" {
		if c.State == "afterfail" {
			// set the stage: a legal call whose source fails after a few bytes
			k := int(c.Seed%15) + 1
			d.Arm(&plan.Dev{Seed: c.Seed, Script: []plan.DevStep{{D: k}, {E: []string{"err", "eof", "ueof", "temp", "eagain"}[c.Seed%5]}, {E: "err"}, {E: "err"}}})
			func() {
				defer func() { recover() }()
				_, _ = bip39.NewMnemonic([]int{12, 15, 18, 21, 24}[c.Seed%5], bip39.Language(c.Lang))
			}()
		}
		if c.State == "afteridle" {
			zzclock.Jump(idleMs[c.Seed%uint64(len(idleMs))])
		}
		d.Arm(stateDev(c.State, c.Seed))
		m, err := bip39.NewMnemonic(c.Count, bip39.Language(c.Lang))
		o.Out = q(m)
		classify(err, &o)
		class, detail = JudgeCount(c, &o, d)
		return
	}
	var ent []byte
	if !c.Nil {
		ent = plan.NewRand(c.Seed).Bytes(c.Len)
	}
	if c.Idle {
		zzclock.Jump(idleMs[c.Seed%uint64(len(idleMs))])
	}
	m, err := bip39.NewMnemonicByEntropy(ent, bip39.Language(c.Lang))
	o.Out = q(m)
	classify(err, &o)
	class, detail = JudgeEnt(c, &o)
	return
}

func RunC09(job *C09Job, d *dev.Dev, cases []C09Case) *C09Result {
	res := &C09Result{ByState: map[string]int{}, Probes: map[string]int{}}
	rng := plan.NewRand(job.Seed)
	seen := map[string]struct{}{}
	ctr := 0
	// every distinct accepted (kind, size, language) call made so far in this process: what could have
	// warmed a cache or a pool before a later call misbehaves; attached to violations as replay stage
	var accepted []C09Case
	acceptedSeen := map[string]bool{}
	var prev *C09Case
	one := func(c C09Case) {
		o, class, detail := RunC09Case(&c, d)
		if job.Kind == "explicit" {
			res.Verdicts = append(res.Verdicts, C09Verdict{Class: class, Detail: detail, Out: o})
		}
		res.Cases++
		for _, ch := range []byte(o.Out + "|" + o.Err + "|" + o.Panic + "|" + class) {
			res.Digest = fnv(res.Digest, uint64(ch))
		}
		res.Digest = fnv(res.Digest, uint64(d.Pos))
		if c.Kind == "count" {
			res.CountCases++
			res.ByState[c.State]++
			res.DeviceReads += len(d.Log)
			if ref.ValidWordCount(c.Count) {
				res.Accepted++
			} else {
				res.Rejected++
				if len(d.Log) > 0 {
					res.Probes["zero_byte_probe_read_on_rejected_count"]++
				}
			}
			// non-trivial: a count that a plausible off-by-one/bound slip would treat differently
			if c.Count%3 == 0 || (c.Count >= 9 && c.Count <= 27) || c.Count < 0 || c.Count > 1<<20 {
				seen[fmt.Sprintf("c%d/%s", c.Count, c.State)] = struct{}{}
			}
		} else {
			res.EntCases++
			if c.Len%4 == 0 || (c.Len >= 12 && c.Len <= 36) || c.Nil {
				seen[fmt.Sprintf("e%d/%v", c.Len, c.Nil)] = struct{}{}
			}
		}
		if class != "" {
			res.ViolCount++
			if len(res.Viol) < 8 {
				v := C09Viol{Case: c, Class: class, Detail: detail, Out: o}
				if ms := int64(zzclock.Offset() / 1e6); ms > 0 {
					// simulated time has passed in this process (idle states of earlier cases): part of the stage
					self := int64(0)
					if (c.Kind == "count" && c.State == "afteridle") || (c.Kind == "ent" && c.Idle) {
						self = idleMs[c.Seed%uint64(len(idleMs))]
					}
					if ms > self {
						v.Stage = append(v.Stage, C09Case{Kind: "idle", J: ms - self})
					}
				}
				v.Stage = append(v.Stage, accepted...)
				if prev != nil {
					v.Stage = append(v.Stage, *prev)
				}
				res.Viol = append(res.Viol, v)
			}
		}
		cc := c
		prev = &cc
		if class == "" && o.IsNil && o.Panic == "" && ((c.Kind == "count" && ref.ValidWordCount(c.Count)) || (c.Kind == "ent" && ref.ValidEntLen(c.Len) && !c.Nil)) {
			if k := fmt.Sprintf("%s/%d/%d/%d", c.Kind, c.Count, c.Len, c.Lang); !acceptedSeen[k] {
				acceptedSeen[k] = true
				accepted = append(accepted, cc)
			}
		}
		if len(res.Samples) < 6 && ctr%1009 == 0 {
			res.Samples = append(res.Samples, c)
			res.SampleOut = append(res.SampleOut, o.Out+" err="+o.Err)
		}
		ctr++
	}
	for _, c := range cases {
		one(c)
	}
	switch job.Kind {
	case "counts":
		run := func(count int) {
			for _, l := range job.Langs {
				for _, s := range job.States {
					one(C09Case{Kind: "count", Count: count, Lang: l, State: s, Seed: rng.Uint64()})
				}
			}
		}
		for c := job.Lo; c <= job.Hi; c++ {
			run(c)
		}
		for _, c := range job.List {
			run(c)
		}
	case "entropy":
		langs := job.Langs
		li := 0
		run := func(n int, isNil bool) {
			one(C09Case{Kind: "ent", Len: n, Nil: isNil, Lang: langs[li%len(langs)], Seed: rng.Uint64(), Idle: li%7 == 3})
			li++
		}
		run(0, true)
		for n := job.Lo; n <= job.Hi; n++ {
			run(n, false)
			if ref.ValidEntLen(n) { // every language on the accepted lengths
				for range langs[1:] {
					run(n, false)
				}
			}
		}
		for _, n := range job.List {
			run(n, false)
		}
	case "explicit":
	default:
		panic("c09: job kind " + job.Kind)
	}
	res.DistinctNT = len(seen)
	return res
}
