package worker

import (
	"encoding/hex"
	"fmt"
	"os"
	"strconv"
	"time"

	"a0verif/harness/dev"
	"a0verif/plan"
	"a0verif/ref"

	"github.com/islishude/bip39"
	"github.com/islishude/bip39/zzclock"
)

// C06Case is one fault case: NewMnemonic(N, Lang) against a scripted device.
type C06Case struct {
	N      int      `json:"n"`
	Lang   int      `json:"lang"`
	Dev    plan.Dev `json:"dev"`
	Family string   `json:"family,omitempty"`
	// PreMs: simulated milliseconds that had passed in the process when this case started (slow reads of earlier
	// cases move the process's clock); recorded with a violation so that the replay plan sets the same stage
	PreMs int64 `json:"pre_ms,omitempty"`
	// PreCalls: successful NewMnemonic calls made in the process before this case (its age in calls); an explicit
	// replay makes that many plain calls first
	PreCalls int `json:"pre_calls,omitempty"`
}

type C06Job struct {
	Kind  string    `json:"kind"` // faults boundary comps seeded structured stalls combo explicit
	N     int       `json:"n,omitempty"`
	Lo    uint64    `json:"lo,omitempty"`
	Hi    uint64    `json:"hi,omitempty"`
	Count int       `json:"count,omitempty"`
	Seed  uint64    `json:"seed,omitempty"`
	Cases []C06Case `json:"cases,omitempty"`
	Keep  int       `json:"keep,omitempty"` // how many sample cases to return
}

type C06Viol struct {
	Case   C06Case        `json:"case"`
	Prev   *C06Case       `json:"prev,omitempty"` // the case executed just before in the same process
	Class  string         `json:"class"`
	Detail string         `json:"detail"`
	Out    plan.Outcome   `json:"outcome"`
	Log    []plan.ReadRec `json:"reads"`
}

type C06Result struct {
	Cases      int            `json:"cases"`
	NonTrivial int            `json:"nontrivial"`
	Distinct   int            `json:"distinct"`
	Fired      map[string]int `json:"fired"`  // fault kinds that actually fired
	Probes     map[string]int `json:"probes"` // rare conditions reached
	Relaxed    map[string]int `json:"relaxed"`
	ByFamily   map[string]int `json:"by_family"`
	ByLang     map[string]int `json:"by_lang"`
	ByN        map[string]int `json:"by_n"`
	Reads      int            `json:"reads"`
	MaxReads   int            `json:"max_reads"`
	Viol       []C06Viol      `json:"violations,omitempty"`
	ViolCount  int            `json:"violation_count"`
	Samples    []C06Case      `json:"samples,omitempty"`
	SampleOut  []string       `json:"sample_outcomes,omitempty"`
	Verdicts   []C06Verdict   `json:"verdicts,omitempty"` // explicit jobs: one per case
	Digest     uint64         `json:"digest"`             // running digest over every case's device log and outcome
}

type C06Verdict struct {
	Class  string         `json:"class,omitempty"`
	Detail string         `json:"detail,omitempty"`
	Out    plan.Outcome   `json:"outcome"`
	Log    []plan.ReadRec `json:"reads"`
}

var needs = []int{12, 15, 18, 21, 24}
var errKinds = []string{"eof", "ueof", "err", "weof", "closed", "temp", "eagain", "eintr", "isall", "wisall"}

type c06run struct {
	prev     *C06Case
	explicit bool
	d        *dev.Dev
	res      *C06Result
	seen     map[uint64]struct{}
	ctr      int
	keep     int
	// fresh installs a new device object (hook configuration only). After a call during which reads took simulated
	// time, a tree with a deadline of its own may have given the read up and left a goroutine behind that still
	// holds the old device: the next case gets a device of its own, so that such a reader cannot disturb it.
	fresh   func() *dev.Dev
	taint   bool
	okCalls int
	// readAhead: in the pre-init configuration (fresh == nil) the tree was seen to ask the OS reader for more bytes
	// than any call needs. A tree may treat the OS reader specially (read ahead, keep a reservoir): its calls then
	// are no function of the bytes delivered during the call, which is what this oracle compares - that
	// configuration is judged by C07 (conservation over the whole process), not here.
	readAhead bool
}

// slowVals: simulated milliseconds a read of the device may take (just past plausible timeouts).
var slowVals = []int64{150, 1100, 2500, 5100, 10100, 31000, 61000, 301000, 3601000}

func fnv(h uint64, v uint64) uint64 { return (h ^ v) * 0x100000001b3 }

// judge applies the oracle of DESIGN.md 3.3. It returns "" when the case is fine.
func (r *c06run) judge(c *C06Case, o *plan.Outcome, relaxFam bool) (class, detail string) {
	d := r.d
	need := c.N + c.N/3
	hasErr := d.FirstErr >= 0
	dn := d.Pos
	if hasErr {
		dn = d.DAtErr
	}
	if o.Panic != "" {
		if hasErr && (d.Log[d.FirstErr].Err == "panic-str" || d.Log[d.FirstErr].Err == "panic-err") {
			r.res.Relaxed["iii_device_panic_propagated"]++
			return "", "" // the source itself panicked: letting the panic through is fail-closed
		}
		return "panic", "NewMnemonic panicked: " + o.Panic
	}
	m, _ := strconv.Unquote(o.Out)
	if o.IsNil && m == "" {
		return "shape", "empty mnemonic with a nil error"
	}
	if !o.IsNil && m != "" {
		return "shape", "a mnemonic was returned together with an error"
	}
	if o.IsNil {
		if hasErr && dn < need {
			return "partial", fmt.Sprintf("mnemonic returned although the source failed after %d < %d bytes", dn, need)
		}
		if len(d.Delivered) < need {
			return "partial", fmt.Sprintf("mnemonic returned although only %d < %d bytes were delivered", len(d.Delivered), need)
		}
		if want := ref.Encode(d.Delivered[:need], c.Lang); m != want {
			return "inexact", "mnemonic is not the BIP39 encoding of the first " + strconv.Itoa(need) + " delivered bytes; want " + strconv.Quote(want)
		}
		if hasErr {
			r.res.Relaxed["i_error_at_or_after_completion_success"]++
		}
		return "", ""
	}
	// an error was returned
	if hasErr && dn < need {
		return "", "" // fail-closed, as required
	}
	if d.SlowMs > 0 {
		// reads took simulated seconds to hours: a tree with a deadline of its own may give up - with an error and
		// no mnemonic - whatever else the source did in the meantime
		r.res.Relaxed["iv_gave_up_on_a_slow_source"]++
		return "", ""
	}
	if hasErr { // the error arrived with or after the byte that completed the buffer
		first := d.Log[d.FirstErr]
		if before := d.DAtErr - first.Gave; before < need && d.DAtErr >= need {
			// the failing read itself delivered the bytes that complete the buffer: all 4n/3 bytes WERE delivered,
			// so the first sentence of the statement applies (this is also what io.ReadFull does)
			return "boundary", fmt.Sprintf("error %s although all %d bytes were delivered (the last %d together with the source's error): the encoding of the delivered bytes is due", o.Err, need, need-before)
		}
		r.res.Relaxed["i_error_on_a_read_after_completion_failclosed"]++
		return "", ""
	}
	if d.Stalls > 0 {
		r.res.Relaxed["ii_gave_up_after_stall"]++
		return "", ""
	}
	if d.Pos >= need {
		return "spurious", fmt.Sprintf("error %s although the source delivered %d >= %d bytes without any fault", o.Err, d.Pos, need)
	}
	return "gaveup", fmt.Sprintf("error %s after only %d of %d bytes although the source had not failed (short reads only)", o.Err, d.Pos, need)
}

func (r *c06run) one(c C06Case) {
	res := r.res
	if r.taint && r.fresh != nil {
		r.d = r.fresh()
		res.Probes["fresh_device_after_a_slow_case"]++
	}
	r.taint = false
	if r.explicit {
		for r.okCalls < c.PreCalls { // age the process: plain successful calls on a healthy source
			r.d.Arm(&plan.Dev{Seed: uint64(r.okCalls) + 1})
			if _, err := bip39.NewMnemonic(12, bip39.Language(2)); err != nil {
				break
			}
			r.okCalls++
		}
	} else {
		c.PreCalls = r.okCalls
	}
	if now := int64(zzclock.Offset() / 1e6); r.explicit && c.PreMs > now {
		zzclock.Jump(c.PreMs - now)
	} else if !r.explicit {
		c.PreMs = now
	}
	r.d.Arm(&c.Dev)
	var o plan.Outcome
	func() {
		defer func() {
			if p := recover(); p != nil {
				o = plan.Outcome{Panic: q(fmt.Sprint(p))}
			}
		}()
		m, err := bip39.NewMnemonic(c.N, bip39.Language(c.Lang))
		o.Out = q(m)
		classify(err, &o)
	}()
	if o.IsNil && o.Panic == "" {
		r.okCalls++
	}
	res.Cases++
	res.ByFamily[c.Family]++
	res.ByLang[strconv.Itoa(c.Lang)]++
	res.ByN[strconv.Itoa(c.N)]++
	d := r.d
	res.Reads += len(d.Log)
	if len(d.Log) > res.MaxReads {
		res.MaxReads = len(d.Log)
	}
	need := c.N + c.N/3
	nontrivial := false
	h := fnv(0xcbf29ce484222325, uint64(c.N))
	for _, rec := range d.Log {
		h = fnv(fnv(h, uint64(rec.Asked)<<20|uint64(rec.Gave)), uint64(len(rec.Err)))
		if len(rec.Err) > 0 {
			h = fnv(h, uint64(rec.Err[0])<<8|uint64(rec.Err[len(rec.Err)-1]))
		}
		if rec.Gave > 0 || rec.Err != "" || rec.Asked > 0 {
			nontrivial = nontrivial || rec.Gave > 0 || rec.Err != ""
		}
		switch {
		case rec.Err != "" && rec.Gave > 0:
			res.Fired["with-bytes"]++
			res.Fired[rec.Err]++
		case rec.Err != "":
			res.Fired[rec.Err]++
		case rec.Gave == 0 && rec.Asked > 0:
			res.Fired["stall"]++
		case rec.Gave < rec.Asked:
			res.Fired["short"]++
		}
	}
	if nontrivial {
		if _, dup := r.seen[h]; !dup {
			r.seen[h] = struct{}{}
			res.NonTrivial++
		}
	}
	if d.FirstErr >= 0 {
		first := d.Log[d.FirstErr]
		before := d.DAtErr - first.Gave
		if d.DAtErr == 0 {
			res.Probes["error_at_k0"]++
		}
		if d.DAtErr == need-1 {
			res.Probes["error_at_need_minus_1"]++
		}
		if before < need && d.DAtErr >= need {
			res.Probes["error_with_completing_bytes"]++
		}
	}
	if d.AfterErr > 0 {
		res.Probes["retry_after_error"]++
	}
	if d.Stalls >= 100 {
		res.Probes["hundred_stalls"]++
	}
	if d.SlowMs > 0 {
		res.Fired["slow-read (simulated clock)"]++
		r.taint = true
	}
	if d.SlowMs >= 60000 {
		res.Probes["a_read_took_a_simulated_minute_or_more"]++
	}
	if r.fresh == nil && !r.readAhead {
		gave := 0
		for _, rec := range d.Log {
			gave += rec.Gave
			if rec.Asked > 32 {
				r.readAhead = true // reads ahead
			}
		}
		if gave > need {
			r.readAhead = true // draws more than the call needs (a reservoir, power-on tests of the OS reader, ...)
		}
	}
	relaxFam := c.Family == "boundary" || c.Family == "stalls" || c.Family == "combo" || c.Family == "slow"
	for _, ch := range []byte(o.Out + "|" + o.Err + "|" + o.Panic) {
		h = fnv(h, uint64(ch))
	}
	res.Digest = fnv(res.Digest, h)
	class, detail := r.judge(&c, &o, relaxFam)
	if r.readAhead && class != "" && class != "panic" {
		res.Relaxed["v_pre_init_process_reads_ahead_from_the_os_reader_judged_by_c07"]++
		class, detail = "", ""
	}
	if class != "" {
		res.ViolCount++
		if len(res.Viol) < 8 {
			res.Viol = append(res.Viol, C06Viol{Case: c, Prev: r.prev, Class: class, Detail: detail, Out: o, Log: append([]plan.ReadRec(nil), d.Log...)})
		}
	}
	if r.explicit {
		res.Verdicts = append(res.Verdicts, C06Verdict{Class: class, Detail: detail, Out: o, Log: append([]plan.ReadRec(nil), d.Log...)})
	}
	cc := c
	r.prev = &cc
	if len(res.Samples) < r.keep && r.ctr%97 == 0 {
		res.Samples = append(res.Samples, c)
		res.SampleOut = append(res.SampleOut, o.Out+" err="+o.Err)
	}
	r.ctr++
}

func cuts(total int, mask uint64) []plan.DevStep {
	// bit i of mask set => a cut after byte i+1
	var s []plan.DevStep
	run := 0
	for i := 0; i < total; i++ {
		run++
		if i == total-1 || mask&(1<<uint(i)) != 0 {
			s = append(s, plan.DevStep{D: run})
			run = 0
		}
	}
	return s
}

func bytewise(k int) []plan.DevStep {
	s := make([]plan.DevStep, k)
	for i := range s {
		s[i].D = 1
	}
	return s
}

func randCuts(rng *plan.Rand, k int) []plan.DevStep {
	if k == 0 {
		return nil
	}
	var mask uint64
	if k > 1 {
		mask = rng.Uint64() & (1<<uint(k-1) - 1)
	}
	return cuts(k, mask)
}

func streamFor(rng *plan.Rand, i int) plan.Dev {
	switch i % 23 {
	case 3:
		return plan.Dev{Fill: "zero"}
	case 7:
		return plan.Dev{Fill: "ff"}
	case 11:
		return plan.Dev{Fill: "counter"}
	case 13: // a zero prefix of some length, then random
		return plan.Dev{Hex: hex.EncodeToString(make([]byte, 1+i%32)), Seed: rng.Uint64()}
	}
	return plan.Dev{Seed: rng.Uint64()}
}

// RunC06 enumerates (or executes) the cases of a job against the device that
// has been installed as the source.
func RunC06(job *C06Job, d *dev.Dev, fresh func() *dev.Dev) *C06Result {
	res := &C06Result{Fired: map[string]int{}, Probes: map[string]int{}, Relaxed: map[string]int{}, ByFamily: map[string]int{}, ByLang: map[string]int{}, ByN: map[string]int{}}
	r := &c06run{d: d, res: res, seen: map[uint64]struct{}{}, keep: job.Keep, fresh: fresh}
	rng := plan.NewRand(job.Seed)
	ctr := 0
	emit := func(n int, fam string, script []plan.DevStep) {
		dv := streamFor(rng, ctr)
		dv.Script = script
		// the "panics" family is executed one case per process (job.Lo <= index < job.Hi): after the source
		// itself has panicked inside a call, the simulated caller does not go on using the library
		if fam != "panics" || (uint64(ctr) >= job.Lo && uint64(ctr) < job.Hi) {
			r.one(C06Case{N: n, Lang: ctr % ref.NumLang, Dev: dv, Family: fam})
			if fam == "panics" {
				// One more call on a healthy (fragmenting) source after the panic: whatever it RETURNS must still be
				// exact. Whether it returns at all is not judged (a lock the panic left held is outside this
				// property): a watchdog ends the process with exit code 6, which the driver ignores.
				t := time.AfterFunc(3*time.Second, func() { os.Exit(6) })
				n2 := needs[rng.Intn(5)]
				fd := plan.Dev{Seed: rng.Uint64(), Script: randCuts(rng, n2+n2/3)}
				r.one(C06Case{N: n2, Lang: (ctr + 3) % ref.NumLang, Dev: fd, Family: "after-panic"})
				t.Stop()
			}
		}
		ctr++
	}
	switch job.Kind {
	case "explicit":
		r.explicit = true
		for _, c := range job.Cases {
			r.one(c)
		}
	case "faults":
		for _, n := range needs {
			need := n + n/3
			for k := 0; k < need; k++ {
				for _, e := range errKinds {
					for frag := 0; frag < 3; frag++ {
						pre := func(k int) []plan.DevStep {
							switch frag {
							case 0:
								if k == 0 {
									return nil
								}
								return []plan.DevStep{{D: k}}
							case 1:
								return bytewise(k)
							}
							return randCuts(rng, k)
						}
						// the error on a read of its own, after k bytes
						own := append(pre(k), plan.DevStep{D: 0, E: e})
						emit(n, "faults", own)
						// the error together with the bytes that bring the total to k
						if k == 0 {
							emit(n, "faults", []plan.DevStep{{D: 0, E: e}, {D: 0, E: e}})
							continue
						}
						j := 1 + rng.Intn(k) // size of the last, failing read
						if frag == 0 {
							j = k
						} else if frag == 1 {
							j = 1
						}
						with := append(pre(k-j), plan.DevStep{D: j, E: e})
						emit(n, "faults", with)
					}
				}
			}
		}
	case "panics":
		for _, n := range needs {
			need := n + n/3
			for k := 0; k < need; k++ {
				for _, e := range []string{"panic-str", "panic-err"} {
					for frag := 0; frag < 2; frag++ {
						var s []plan.DevStep
						if k > 0 && frag == 0 {
							s = append(s, plan.DevStep{D: k})
						} else {
							s = append(s, randCuts(rng, k)...)
						}
						emit(n, "panics", append(s, plan.DevStep{E: e}))
					}
				}
			}
		}
	case "boundary":
		for _, n := range needs {
			need := n + n/3
			for j := 1; j <= need; j++ {
				for _, e := range errKinds {
					s := randCuts(rng, need-j)
					s = append(s, plan.DevStep{D: j, E: e})
					emit(n, "boundary", s)
				}
			}
		}
	case "comps":
		need := job.N + job.N/3
		for m := job.Lo; m < job.Hi; m++ {
			emit(job.N, "comps", cuts(need, m))
		}
	case "seeded":
		need := job.N + job.N/3
		for i := 0; i < job.Count; i++ {
			emit(job.N, "seeded", cuts(need, rng.Uint64()&(1<<uint(need-1)-1)))
		}
	case "structured":
		for _, n := range needs {
			need := n + n/3
			emit(n, "structured", nil) // one full read
			emit(n, "structured", bytewise(need))
			for a := 1; a < need; a++ { // every two-part split
				emit(n, "structured", []plan.DevStep{{D: a}, {D: need - a}})
			}
			emit(n, "structured", []plan.DevStep{{D: need / 2}, {D: need - need/2}})
			emit(n, "structured", []plan.DevStep{{D: need * 2}}) // offers more than asked
		}
	case "stalls":
		for _, n := range needs {
			need := n + n/3
			for _, c := range []int{1, 2, 3, 100} {
				for p := 0; p <= need; p++ {
					for base := 0; base < 2; base++ {
						var s []plan.DevStep
						if p > 0 {
							if base == 0 {
								s = append(s, plan.DevStep{D: p})
							} else {
								s = append(s, bytewise(p)...)
							}
						}
						for i := 0; i < c; i++ {
							s = append(s, plan.DevStep{D: 0})
						}
						if base == 1 {
							s = append(s, bytewise(need-p)...)
						}
						emit(n, "stalls", s)
					}
				}
			}
		}
	case "slow":
		// the clock seam: reads that take simulated time. p bytes arrive at once (or one by one), then one read of one
		// byte takes J ms, then the rest arrives; or every byte takes J/need ms (a trickling source)
		for _, n := range needs {
			need := n + n/3
			for _, j := range slowVals {
				for p := 0; p < need; p++ {
					var a, b []plan.DevStep
					if p > 0 {
						a = append(a, plan.DevStep{D: p})
						b = append(b, bytewise(p)...)
					}
					a = append(a, plan.DevStep{D: 1, J: j})
					b = append(b, plan.DevStep{D: 0, J: j}, plan.DevStep{D: 1})
					if need-p-1 > 0 {
						a = append(a, plan.DevStep{D: need - p - 1})
						b = append(b, bytewise(need-p-1)...)
					}
					emit(n, "slow", a)
					emit(n, "slow", b)
				}
				var t []plan.DevStep
				for i := 0; i < need; i++ {
					t = append(t, plan.DevStep{D: 1, J: j/int64(need) + 1})
				}
				emit(n, "slow", t)
			}
			// memory pressure: a collection cycle (finalizers included) completes while a read is in progress
			for p := 0; p < need; p += 3 {
				var a []plan.DevStep
				if p > 0 {
					a = append(a, plan.DevStep{D: p})
				}
				a = append(a, plan.DevStep{D: 1, G: true})
				if need-p-1 > 0 {
					a = append(a, plan.DevStep{D: need - p - 1})
				}
				emit(n, "gcread", a)
			}
			emit(n, "gcread", []plan.DevStep{{D: need, G: true}})
		}
	case "combo":
		for i := 0; i < job.Count; i++ {
			n := needs[rng.Intn(5)]
			need := n + n/3
			var s []plan.DevStep
			total := 0
			steps := rng.Range(1, 12)
			for j := 0; j < steps && total < need+4; j++ {
				switch x := rng.Intn(10); {
				case x < 5:
					k := rng.Range(1, 8)
					s = append(s, plan.DevStep{D: k})
					total += k
				case x < 7:
					st := plan.DevStep{D: 0}
					if rng.Intn(3) == 0 {
						st.J = slowVals[rng.Intn(len(slowVals))]
					}
					s = append(s, st)
				case x < 9:
					s = append(s, plan.DevStep{D: 0, E: errKinds[rng.Intn(len(errKinds))]})
				default:
					k := rng.Range(1, 8)
					s = append(s, plan.DevStep{D: k, E: errKinds[rng.Intn(len(errKinds))]})
					total += k
				}
			}
			emit(n, "combo", s)
		}
	default:
		panic("c06: unknown job kind " + job.Kind)
	}
	res.Distinct = len(r.seen)
	return res
}
