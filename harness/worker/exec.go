// Package worker runs inside the per-run worker processes. It links the code
// under test (built from a scratch copy of /repo's working tree with -tags verif).
package worker

import (
	"bytes"
	"encoding/hex"
	"errors"
	"fmt"
	"runtime"
	"strconv"
	"time"

	"a0verif/harness/dev"
	"a0verif/plan"

	"github.com/islishude/bip39"
	"github.com/islishude/bip39/zzclock"
)

// the simulated device reports the time its scripted reads take to the clock seam of the scratch copy
func init() {
	dev.ClockJump = func(ms int64) { zzclock.Jump(ms) }
	dev.GCNow = func() {
		runtime.GC()
		runtime.GC()
		time.Sleep(time.Millisecond)
	}
}

func q(s string) string { return strconv.QuoteToASCII(s) }

func classify(err error, o *plan.Outcome) {
	if err == nil {
		o.IsNil = true
		return
	}
	o.Err = q(err.Error())
	if errors.Is(err, bip39.ErrWordLen) {
		o.Is = append(o.Is, "wordlen")
	}
	if errors.Is(err, bip39.ErrEntropyLen) {
		o.Is = append(o.Is, "entlen")
	}
	if errors.Is(err, bip39.ErrChecksumIncorrect) {
		o.Is = append(o.Is, "checksum")
	}
}

// Held is what the simulated caller keeps from a call to re-inspect later.
type Held struct {
	OpIdx   int
	Seed    []byte // the very slice that was returned
	SeedCpy []byte
	Str     string // the very string that was returned
	StrCpy  []byte
	Ent     []byte // the caller's own entropy buffer (full capacity)
	EntCpy  []byte
}

const spareByte = 0xA5

// SharedBufs are caller-owned buffers that several goroutines pass windows of at the same time
// (set by the concurrent harness before the run; never written by the harness during it).
var SharedBufs [][]byte

// Exec performs one call. d is the device currently installed as the source
// (nil when the real source is in place). The returned Held carries the
// caller-owned and returned memory for later re-inspection.
func Exec(op *plan.Op, d *dev.Dev) (o plan.Outcome, h Held) {
	defer func() {
		if r := recover(); r != nil {
			o = plan.Outcome{Panic: q(fmt.Sprint(r))}
		}
	}()
	if op.J != 0 {
		// the simulated caller was idle for that long; timers of the code under test that came due in the
		// meantime have fired, and what they woke gets a moment to run before the caller's next call
		if zzclock.Jump(op.J) > 0 {
			time.Sleep(2 * time.Millisecond)
		}
	}
	lang := bip39.Language(op.Lang)
	switch op.K {
	case "ent":
		var ent []byte
		if !op.Nil && op.Shared > 0 && op.Shared <= len(SharedBufs) {
			ent = SharedBufs[op.Shared-1][:len(op.Ent)/2]
		} else if !op.Nil {
			raw, _ := hex.DecodeString(op.Ent)
			full := make([]byte, len(raw)+op.Cap)
			copy(full, raw)
			for i := len(raw); i < len(full); i++ {
				full[i] = spareByte
			}
			ent = full[:len(raw)]
			h.Ent = full
			h.EntCpy = append([]byte(nil), full...)
		}
		m, err := bip39.NewMnemonicByEntropy(ent, lang)
		o.Out = q(m)
		classify(err, &o)
		h.Str, h.StrCpy = m, []byte(m)
		if h.Ent != nil && !bytes.Equal(h.Ent, h.EntCpy) {
			o.Mut = "caller's entropy buffer (or its spare capacity) modified by the call"
		}
	case "new":
		if d != nil {
			d.Arm(op.Dev)
		}
		m, err := bip39.NewMnemonic(op.N, lang)
		o.Out = q(m)
		classify(err, &o)
		h.Str, h.StrCpy = m, []byte(m)
	case "check":
		err := bip39.CheckMnemonic(op.Mnemonic(), lang)
		classify(err, &o)
	case "valid":
		o.Out = strconv.FormatBool(bip39.IsMnemonicValid(op.Mnemonic(), lang))
		o.IsNil = true
	case "seed":
		s := bip39.MnemonicToSeed(op.Mnemonic(), op.Passphrase())
		o.Out = hex.EncodeToString(s)
		o.IsNil = true
		h.Seed = s
		h.SeedCpy = append([]byte(nil), s...)
	case "str":
		o.Out = q(lang.String())
		o.IsNil = true
	default:
		panic("worker: unknown op kind " + op.K)
	}
	return
}
