package worker

import (
	"crypto/rand"
	"encoding/json"
	"fmt"
	"io"
	"os"

	"a0verif/harness/dev"

	"github.com/islishude/bip39"
)

func fail(code int, f string, a ...interface{}) {
	fmt.Fprintf(os.Stderr, f+"\n", a...)
	os.Exit(code)
}

func readJSON(path string, v interface{}) {
	b, err := os.ReadFile(path)
	if err != nil {
		fail(3, "WORKER-TROUBLE read %s: %v", path, err)
	}
	if err := json.Unmarshal(b, v); err != nil {
		fail(3, "WORKER-TROUBLE parse %s: %v", path, err)
	}
}

func writeJSON(path string, v interface{}) {
	b, err := json.Marshal(v)
	if err != nil {
		fail(3, "WORKER-TROUBLE marshal: %v", err)
	}
	if err := os.WriteFile(path, b, 0644); err != nil {
		fail(3, "WORKER-TROUBLE write %s: %v", path, err)
	}
}

func current() io.Reader {
	p := bip39.VerifSwapSource(nil)
	bip39.VerifSwapSource(p)
	return p
}

// Main is the entry point of srcsim (pre == nil) and coldsim (pre = the device
// that package presim installed as crypto/rand.Reader before bip39's init).
//
//	<bin> <mode> <in.json> <out.json>
func Main(pre *dev.Dev) {
	if len(os.Args) != 4 {
		fail(3, "usage: %s c06|c09|hist in.json out.json", os.Args[0])
	}
	mode, in, out := os.Args[1], os.Args[2], os.Args[3]
	if pre != nil && mode != "hist" {
		// The pre-init device became crypto/rand.Reader before bip39 was initialised
		// (presim's dependencies are a subset of crypto/rand's plus import-free
		// packages, and its path sorts first). If the library's source is not that
		// device, the tree under test does not start from crypto/rand.Reader: that
		// is C07's business (hist mode reports it); the fault-enumeration modes just
		// cannot use the hook-free seam on such a tree.
		if c := current(); c != nil && c != io.Reader(pre) { // nil: a lazily initialised source, it will pick up crypto/rand.Reader (= the device) at first use
			fail(4, "SEAM-UNAVAILABLE: the library's source is not the value crypto/rand.Reader had before its initialisation")
		}
	}
	install := func() *dev.Dev {
		if pre != nil {
			return pre
		}
		d := dev.New(nil)
		bip39.VerifSwapSource(d)
		return d
	}
	switch mode {
	case "c06":
		var job C06Job
		readJSON(in, &job)
		var fresh func() *dev.Dev
		if pre == nil {
			fresh = install
		}
		writeJSON(out, RunC06(&job, install(), fresh))
	case "c09":
		var job struct {
			C09Job
			Cases []C09Case `json:"cases,omitempty"`
		}
		readJSON(in, &job)
		writeJSON(out, RunC09(&job.C09Job, install(), job.Cases))
	case "hist":
		var p HistPlan
		readJSON(in, &p)
		var d *dev.Dev
		var id func(lazyOK bool) (bool, string)
		switch p.Source {
		case "hook":
			if pre != nil {
				fail(3, "WORKER-TROUBLE source=hook in a coldsim binary")
			}
			d = install()
			id = func(bool) (bool, string) {
				return current() == io.Reader(d), "source is no longer the installed device"
			}
		case "preinit":
			if pre == nil {
				fail(3, "WORKER-TROUBLE source=preinit needs the coldsim binary")
			}
			d = pre
			id = func(lazyOK bool) (bool, string) {
				c := current()
				if c == nil && lazyOK {
					return rand.Reader == io.Reader(pre), "crypto/rand.Reader itself was replaced"
				}
				return c == io.Reader(pre) && rand.Reader == io.Reader(pre), fmt.Sprintf("source is %T, not the value crypto/rand.Reader had at init", c)
			}
		case "real":
			if pre != nil {
				fail(3, "WORKER-TROUBLE source=real in a coldsim binary")
			}
			id = func(lazyOK bool) (bool, string) {
				c := current()
				if c == nil && lazyOK {
					return true, ""
				}
				return c == rand.Reader, fmt.Sprintf("source is %T, not crypto/rand.Reader", c)
			}
		default:
			fail(3, "WORKER-TROUBLE unknown source %q", p.Source)
		}
		writeJSON(out, RunHist(&p, d, id))
	default:
		fail(3, "WORKER-TROUBLE unknown mode %q", mode)
	}
}
