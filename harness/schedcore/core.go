// Package schedcore is the body of the schedsim workers: one seeded schedule of
// concurrent callers from a cold start, under the cooperative token scheduler
// (zzsimrt, generated into the instrumented scratch copy of the repository) with
// the race detector on. The two binaries differ only in how the per-task devices
// get in front of NewMnemonic: through the verif hook (schedsim) or by having
// replaced crypto/rand.Reader before the library was initialised (schedsimcold).
//
//	<bin> <plan.json> <out.json>
package schedcore

import (
	"encoding/hex"
	"encoding/json"
	"fmt"
	"os"
	"runtime/pprof"
	"sync"
	"syscall"
	"time"

	"a0verif/harness/dev"
	"a0verif/harness/worker"
	"a0verif/plan"

	"github.com/islishude/bip39/zzclock"
	"github.com/islishude/bip39/zzsimrt"
)

type Schedule struct {
	Mode     string          `json:"mode"`             // policy | explicit
	Policy   string          `json:"policy,omitempty"` // walk | pct | serial
	Seed     uint64          `json:"seed,omitempty"`
	MeanGap  int             `json:"mean_gap,omitempty"`
	Stay     float64         `json:"stay,omitempty"`
	D        int             `json:"d,omitempty"`
	EstSteps int64           `json:"est_steps,omitempty"`
	HotSites []int           `json:"hot_sites,omitempty"`
	Order    []int           `json:"order,omitempty"`
	Grants   []zzsimrt.Grant `json:"grants,omitempty"`
	PoolSeed uint64          `json:"pool_seed,omitempty"` // != 0: the simulated sync.Pool drops items (seeded)
	GCAt     []int           `json:"gc_at,omitempty"`     // grant numbers at which a GC cycle is forced
	GCEnd    int             `json:"gc_end,omitempty"`    // GC cycles forced after the last task finished
	GCStorm  bool            `json:"gc_storm,omitempty"`  // a GC cycle before every grant
}

type Plan struct {
	Tasks    [][]plan.Op `json:"tasks"`
	Schedule Schedule    `json:"schedule"`
	StepCap  int64       `json:"step_cap,omitempty"`
	Record   string      `json:"record,omitempty"`
	Foreign  bool        `json:"foreign_possible,omitempty"`
	Shared   []string    `json:"shared_ent,omitempty"` // hex: caller buffers that several tasks pass windows of
	Grants   bool        `json:"want_grants,omitempty"`
	// Warm: calls made one after the other by the process's main goroutine BEFORE the concurrent callers start
	// (a process that has been serving for a while); WarmJump: simulated milliseconds of idleness after them.
	Warm     []plan.Op `json:"warm,omitempty"`
	WarmJump int64     `json:"warm_jump_ms,omitempty"`
}

type Out struct {
	Warm        []plan.Outcome     `json:"warm,omitempty"`
	Outcomes    [][]plan.Outcome   `json:"outcomes"`
	Delivered   [][]string         `json:"delivered"`
	Reads       [][][]plan.ReadRec `json:"reads"`
	Stats       zzsimrt.Stats      `json:"stats"`
	Deadlock    string             `json:"deadlock,omitempty"`
	StepCap     bool               `json:"step_cap,omitempty"`
	Protocol    string             `json:"protocol,omitempty"`
	SwitchSites map[int]int        `json:"switch_sites,omitempty"`
	SiteHits    map[int]int        `json:"site_hits,omitempty"`
	Digest      string             `json:"digest"`
	DevOrder    []int              `json:"dev_order,omitempty"`
	Grants      []zzsimrt.Grant    `json:"grants,omitempty"`
	NGrants     int                `json:"n_grants"`
	Foreign     int64              `json:"foreign_hook_calls,omitempty"`
	SharedMut   string             `json:"shared_buffer_mutated,omitempty"`
	IdleBytes   string             `json:"idle_device_delivered,omitempty"` // hex: bytes read by goroutines that are not tasks
	IdleChunks  []string           `json:"idle_device_reads,omitempty"`     // hex per Read call of those goroutines
}

func die(code int, f string, a ...interface{}) {
	fmt.Fprintf(os.Stderr, f+"\n", a...)
	os.Exit(code)
}

// Main runs the worker; install puts the per-task devices in front of NewMnemonic.
func Main(install func(devs []*dev.Dev), idle *dev.Safe) {
	if len(os.Args) != 3 {
		die(3, "usage: schedsim plan.json out.json")
	}
	b, err := os.ReadFile(os.Args[1])
	if err != nil {
		die(3, "WORKER-TROUBLE %v", err)
	}
	var p Plan
	if err := json.Unmarshal(b, &p); err != nil {
		die(3, "WORKER-TROUBLE %v", err)
	}
	n := len(p.Tasks)
	if n == 0 || n > zzsimrt.MaxTasks {
		die(3, "WORKER-TROUBLE %d tasks", n)
	}
	// real-time guard against a stalled simulation: infrastructure, never a verdict
	time.AfterFunc(90*time.Second, func() {
		fmt.Fprintln(os.Stderr, "STALL: the simulation made no end within 90 s; goroutines:")
		pprof.Lookup("goroutine").WriteTo(os.Stderr, 1)
		os.Exit(5)
	})
	var devs []*dev.Dev
	for i := 0; i < n; i++ {
		d := dev.New(nil)
		d.Hook = zzsimrt.DevRead
		devs = append(devs, d)
	}
	install(devs)
	var sharedCopy [][]byte
	for _, hx := range p.Shared {
		raw, _ := hex.DecodeString(hx)
		buf := make([]byte, 96)
		for i := range buf {
			buf[i] = 0xA5
		}
		copy(buf, raw)
		worker.SharedBufs = append(worker.SharedBufs, buf)
		sharedCopy = append(sharedCopy, append([]byte(nil), buf...))
	}
	out := &Out{}
	// written by the tasks; main reads them only after wg.Wait() (never on deadlock / step cap)
	outcomes, delivered, reads := make([][]plan.Outcome, n), make([][]string, n), make([][][]plan.ReadRec, n)
	var wg sync.WaitGroup
	tasks := make([]func(), n)
	for i := 0; i < n; i++ {
		i := i
		ops := p.Tasks[i]
		d := devs[i]
		wg.Add(1)
		tasks[i] = func() {
			defer wg.Done()
			for k := range ops {
				var armed *dev.Dev
				if ops[k].K == "new" {
					armed = d
				}
				o, _ := worker.Exec(&ops[k], armed)
				outcomes[i] = append(outcomes[i], o)
				if ops[k].K == "new" {
					delivered[i] = append(delivered[i], hex.EncodeToString(d.Delivered))
					reads[i] = append(reads[i], append([]plan.ReadRec(nil), d.Log...))
				} else {
					delivered[i] = append(delivered[i], "")
					reads[i] = append(reads[i], nil)
				}
			}
		}
	}
	s := &zzsimrt.Sched{RecordFD: -1, StepCap: p.StepCap, HotSites: p.Schedule.HotSites, PoolSeed: p.Schedule.PoolSeed, ForeignPossible: p.Foreign, GCAt: append([]int(nil), p.Schedule.GCAt...), GCEnd: p.Schedule.GCEnd, GCStorm: p.Schedule.GCStorm}
	if p.Record != "" {
		fd, err := syscall.Open(p.Record, syscall.O_WRONLY|syscall.O_CREAT|syscall.O_TRUNC, 0644)
		if err != nil {
			die(3, "WORKER-TROUBLE record: %v", err)
		}
		s.RecordFD = fd
	}
	switch p.Schedule.Mode {
	case "explicit":
		s.Explicit = p.Schedule.Grants
		if s.Explicit == nil {
			s.Explicit = []zzsimrt.Grant{}
		}
	case "policy":
		s.Policy = newPolicy(&p.Schedule, n)
	default:
		die(3, "WORKER-TROUBLE schedule mode %q", p.Schedule.Mode)
	}
	for k := range p.Warm { // outside the simulation: the hooks are inert for this goroutine
		if p.Warm[k].K == "new" {
			die(3, "WORKER-TROUBLE warm-up call %d needs a device", k)
		}
		o, _ := worker.Exec(&p.Warm[k], nil)
		out.Warm = append(out.Warm, o)
	}
	if p.WarmJump != 0 && zzclock.Jump(p.WarmJump) > 0 {
		// timers of the code under test came due during the idle period: what they wake runs (unscheduled,
		// as every goroutine of the library's own does) next to the concurrent callers that start now
		time.Sleep(200 * time.Microsecond)
	}
	res := s.Run(tasks)
	out.Stats, out.Deadlock, out.StepCap, out.Protocol = res.Stats, res.Deadlock, res.StepCap, res.Protocol
	out.SwitchSites, out.SiteHits, out.DevOrder = res.SwitchSites, res.SiteHits, res.DevOrder
	out.NGrants = len(s.Grants)
	out.Foreign = res.Foreign
	if p.Grants {
		out.Grants = s.Grants
	}
	if res.Deadlock == "" && !res.StepCap && res.Protocol == "" {
		wg.Wait() // the only happens-before edge the harness adds: task end -> main
		out.Outcomes, out.Delivered, out.Reads = outcomes, delivered, reads
		if b := idle.DeliveredCopy(); len(b) > 0 {
			out.IdleBytes = hex.EncodeToString(b)
			for _, c := range idle.Chunks(4096) {
				out.IdleChunks = append(out.IdleChunks, hex.EncodeToString(c))
			}
		}
		for i := range sharedCopy {
			if string(sharedCopy[i]) != string(worker.SharedBufs[i]) {
				out.SharedMut = fmt.Sprintf("caller buffer %d, shared read-only by several goroutines, was modified by the library", i+1)
			}
		}
		// fold the outcomes into the run digest
		ob, _ := json.Marshal(out.Outcomes)
		h := res.Digest
		for _, c := range ob {
			h = (h ^ uint64(c)) * 0x100000001b3
		}
		out.Digest = fmt.Sprintf("%016x", h)
	} else {
		// unfinished tasks still own outcomes/delivered/reads: not touched
		out.Digest = fmt.Sprintf("%016x", res.Digest)
	}
	ob, err := json.Marshal(out)
	if err != nil {
		die(3, "WORKER-TROUBLE %v", err)
	}
	if err := os.WriteFile(os.Args[2], ob, 0644); err != nil {
		die(3, "WORKER-TROUBLE %v", err)
	}
	os.Exit(0)
}
