package schedcore

import (
	"a0verif/plan"
)

// fairness bound: no grant is longer than this many steps
const maxGap = 20000

type walk struct {
	rng  *plan.Rand
	mean int
	stay float64
}

func geo(rng *plan.Rand, mean int) int64 {
	if mean <= 1 {
		return 1
	}
	// geometric with the given mean, capped
	g := int64(1)
	p := 1.0 / float64(mean)
	for rng.Float() > p && g < maxGap {
		g++
		if g > int64(mean)*8 {
			break
		}
	}
	return g
}

func (w *walk) Next(cur int, curRunnable bool, runnable []int, step int64, reason int) (int, int64) {
	to := runnable[w.rng.Intn(len(runnable))]
	if curRunnable && w.rng.Float() < w.stay {
		to = cur
	}
	return to, geo(w.rng, w.mean)
}

// pct: random priorities, d priority change points at random steps.
type pct struct {
	rng    *plan.Rand
	prio   []int
	points []int64
	low    int
}

func (p *pct) Next(cur int, curRunnable bool, runnable []int, step int64, reason int) (int, int64) {
	// a change point reached: the running task drops below everyone
	for len(p.points) > 0 && p.points[0] <= step {
		p.points = p.points[1:]
		if cur >= 0 {
			p.low--
			p.prio[cur] = p.low
		}
	}
	best := runnable[0]
	for _, r := range runnable {
		if p.prio[r] > p.prio[best] {
			best = r
		}
	}
	gap := int64(maxGap)
	if len(p.points) > 0 && p.points[0]-step < gap {
		gap = p.points[0] - step
	}
	if gap >= maxGap && len(runnable) > 1 && cur == best && curRunnable {
		// fairness: after a full quantum somebody else runs (spin-waits must not starve the writer)
		p.low--
		p.prio[cur] = p.low
	}
	return best, gap
}

// serial: whole tasks in a fixed order; on a block the next in order runs.
type serial struct{ order []int }

func (s *serial) Next(cur int, curRunnable bool, runnable []int, step int64, reason int) (int, int64) {
	if curRunnable {
		return cur, maxGap
	}
	for _, t := range s.order {
		for _, r := range runnable {
			if r == t {
				return t, maxGap
			}
		}
	}
	return runnable[0], maxGap
}

func newPolicy(sc *Schedule, n int) interface {
	Next(cur int, curRunnable bool, runnable []int, step int64, reason int) (int, int64)
} {
	rng := plan.NewRand(sc.Seed)
	switch sc.Policy {
	case "pct":
		p := &pct{rng: rng, prio: rng.Perm(n)}
		est := sc.EstSteps
		if est < 10 {
			est = 10
		}
		for i := 0; i < sc.D; i++ {
			p.points = append(p.points, int64(rng.Uint64()%uint64(est)))
		}
		for i := range p.points { // ascending
			for j := i + 1; j < len(p.points); j++ {
				if p.points[j] < p.points[i] {
					p.points[i], p.points[j] = p.points[j], p.points[i]
				}
			}
		}
		return p
	case "serial":
		o := sc.Order
		if len(o) == 0 {
			o = rng.Perm(n)
		}
		return &serial{order: o}
	default:
		mean := sc.MeanGap
		if mean < 1 {
			mean = 1
		}
		return &walk{rng: rng, mean: mean, stay: sc.Stay}
	}
}
