// srcsim: worker with the simulated device installed through the verif hook.
package main

import "a0verif/harness/worker"

func main() { worker.Main(nil) }
