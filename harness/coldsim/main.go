// coldsim: worker whose OS CSPRNG *is* the simulated device (pre-init seam).
package main

import (
	"a0verif/harness/presim"
	"a0verif/harness/worker"
)

func main() { worker.Main(presim.Device) }
