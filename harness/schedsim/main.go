// schedsim: schedcore with the per-task devices installed through the verif hook.
package main

import (
	"a0verif/harness/dev"
	"a0verif/harness/schedcore"

	"github.com/islishude/bip39"
	"github.com/islishude/bip39/zzsimrt"
)

// mux is the source installed for the whole run: a Read is served by the
// device of the task that holds the token.
type mux struct {
	devs []*dev.Dev
	idle *dev.Safe
}

func (m *mux) Read(p []byte) (int, error) {
	if !zzsimrt.IsTask() { // a goroutine of the library's own: served by an unscripted, goroutine-safe device
		return m.idle.Read(p)
	}
	return m.devs[zzsimrt.Cur()].Read(p)
}

func main() {
	idle := dev.NewSafe()
	schedcore.Main(func(devs []*dev.Dev) { bip39.VerifSwapSource(&mux{devs: devs, idle: idle}) }, idle)
}
