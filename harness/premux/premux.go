// Package premux makes the per-task device multiplexer BE crypto/rand.Reader before
// github.com/islishude/bip39 is initialised (same reasoning as package presim: this
// package needs only crypto/rand, the import-light device packages and zzsimrt, which
// the instrumented library needs itself, so it is ready no later than the library
// and its import path sorts first). Code paths that the library takes only when its
// source is the OS reader itself are then exercised under the scheduler as well.
package premux

import (
	"crypto/rand"
	"io"

	"a0verif/harness/dev"

	"github.com/islishude/bip39/zzsimrt"
)

type MuxT struct {
	Devs []*dev.Dev
	Idle *dev.Safe // serves reads outside a simulation / from goroutines that are not tasks (helper goroutines of the library)
}

func (m *MuxT) Read(p []byte) (int, error) {
	if m.Devs == nil || !zzsimrt.IsTask() {
		return m.Idle.Read(p)
	}
	return m.Devs[zzsimrt.Cur()].Read(p)
}

var Orig io.Reader
var Mux = &MuxT{Idle: dev.NewSafe()}

func init() {
	Orig = rand.Reader
	rand.Reader = Mux
}
