// schedsimcold: schedcore in a process whose crypto/rand.Reader is the device multiplexer
// (no hook is used to install it; the hook only reads the identity of the source).
package main

import (
	"fmt"
	"io"
	"os"

	"a0verif/harness/dev"
	"a0verif/harness/premux"
	"a0verif/harness/schedcore"

	"github.com/islishude/bip39"
)

func main() {
	cur := bip39.VerifSwapSource(nil)
	bip39.VerifSwapSource(cur)
	if cur != nil && cur != io.Reader(premux.Mux) { // nil: lazily initialised, picks up crypto/rand.Reader (= the multiplexer) at first use
		fmt.Fprintln(os.Stderr, "SEAM-UNAVAILABLE: the library's source is not the value crypto/rand.Reader had before its initialisation")
		os.Exit(4)
	}
	schedcore.Main(func(devs []*dev.Dev) { premux.Mux.Devs = devs }, premux.Mux.Idle)
}
