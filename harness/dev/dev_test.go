package dev

import (
	"errors"
	"io"
	"testing"

	"a0verif/plan/core"
)

func TestScriptedReads(t *testing.T) {
	d := New(&core.Dev{Fill: "counter", Script: []core.DevStep{{D: 3}, {D: 0}, {D: 2, E: "eof"}, {D: 0, E: "weof"}}})
	buf := make([]byte, 8)
	if n, err := d.Read(buf); n != 3 || err != nil || buf[0] != 0 || buf[2] != 2 {
		t.Fatal(n, err, buf)
	}
	if n, err := d.Read(buf); n != 0 || err != nil {
		t.Fatal("stall", n, err)
	}
	if n, err := d.Read(buf); n != 2 || err != io.EOF || buf[0] != 3 {
		t.Fatal(n, err, buf)
	}
	if d.FirstErr != 2 || d.DAtErr != 5 || d.Stalls != 1 {
		t.Fatal(d.FirstErr, d.DAtErr, d.Stalls)
	}
	if _, err := d.Read(buf); !errors.Is(err, io.EOF) || err == io.EOF {
		t.Fatal("wrapped EOF expected", err)
	}
	// script exhausted: the stream is served without faults, full buffers
	if n, err := d.Read(buf); n != 8 || err != nil || buf[0] != 5 {
		t.Fatal(n, err, buf)
	}
	if d.AfterErr != 2 || len(d.Log) != 5 || d.Pos != 13 {
		t.Fatal(d.AfterErr, len(d.Log), d.Pos)
	}
}

func TestIoReadFullOverDevice(t *testing.T) {
	d := New(&core.Dev{Seed: 9, Script: []core.DevStep{{D: 5}, {D: 5}, {D: 5}, {D: 5}}})
	buf := make([]byte, 16)
	if _, err := io.ReadFull(d, buf); err != nil {
		t.Fatal(err)
	}
	d2 := New(&core.Dev{Seed: 9})
	buf2 := make([]byte, 16)
	io.ReadFull(d2, buf2)
	if string(buf) != string(buf2) {
		t.Fatal("fragmentation changed the stream")
	}
}
