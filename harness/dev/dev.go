// Package dev is the simulated entropy device: an io.Reader whose every
// Read is scripted (short reads, stalls, EOF, errors, errors with bytes) and
// logged. It reads no clock and draws from no RNG at run time.
package dev

import (
	"errors"
	"io"
	"sync"
	"syscall"

	"a0verif/plan/core"
)

type wrappedEOF struct{}

func (wrappedEOF) Error() string { return "simulated device: EOF" }
func (wrappedEOF) Unwrap() error { return io.EOF }

// MaxKeep bounds the copy of delivered bytes kept for the oracles.
const MaxKeep = 1 << 20

var ErrSim = errors.New("simulated device failure")
var ErrWrappedEOF error = wrappedEOF{}

// tempErr is a transient failure as net.Error / os errors report them.
type tempErr struct{}

func (tempErr) Error() string   { return "simulated device: resource temporarily unavailable" }
func (tempErr) Temporary() bool { return true }
func (tempErr) Timeout() bool   { return true }

var ErrTemp error = tempErr{}

// isAllErr is an adversarial error value: its Is method claims to match every target
// (so errors.Is(err, anything) is true), which private sentinels compared with errors.Is
// instead of == fall for.
type isAllErr struct{}

func (isAllErr) Error() string { return "simulated device: error that claims to be every error" }
func (isAllErr) Is(error) bool { return true }

type wrapIsAll struct{}

func (wrapIsAll) Error() string {
	return "simulated device: wrapped: error that claims to be every error"
}
func (wrapIsAll) Unwrap() error { return isAllErr{} }

var ErrIsAll error = isAllErr{}
var ErrWrapIsAll error = wrapIsAll{}

func ErrOf(kind string) error {
	switch kind {
	case "":
		return nil
	case "eof":
		return io.EOF
	case "ueof":
		return io.ErrUnexpectedEOF
	case "err":
		return ErrSim
	case "weof":
		return ErrWrappedEOF
	case "closed":
		return io.ErrClosedPipe
	case "temp":
		return ErrTemp
	case "eagain":
		return syscall.EAGAIN
	case "eintr":
		return syscall.EINTR
	case "isall":
		return ErrIsAll
	case "wisall":
		return ErrWrapIsAll
	}
	panic("dev: unknown error kind " + kind)
}

type Dev struct {
	prefix []byte
	fill   string
	seed   uint64
	script []core.DevStep
	step   int

	Pos       int            // bytes delivered so far
	Log       []core.ReadRec // every Read call
	Delivered []byte         // every byte delivered, in order
	FirstErr  int            // index in Log of the first read that returned an error, -1 if none
	DAtErr    int            // bytes delivered up to and including that read
	Stalls    int
	SlowMs    int64  // simulated milliseconds that scripted Reads took so far
	GCs       int    // collection cycles completed during scripted Reads
	AfterErr  int    // reads served after the first error (diagnostic: retry-after-error)
	Hook      func() // called at the start of every Read (scheduler preemption point), may be nil
}

func New(d *core.Dev) *Dev {
	x := &Dev{FirstErr: -1}
	x.Arm(d)
	return x
}

// Arm (re)configures the device and clears its log.
func (x *Dev) Arm(d *core.Dev) {
	*x = Dev{FirstErr: -1, Hook: x.Hook}
	if d == nil {
		x.fill = "prng"
		return
	}
	x.prefix = core.Unhex(d.Hex)
	x.fill, x.seed, x.script = d.Fill, d.Seed, d.Script
	if x.fill == "" {
		x.fill = "prng"
	}
}

func (x *Dev) byteAt(i int) byte {
	if i < len(x.prefix) {
		return x.prefix[i]
	}
	return core.FillByte(x.fill, x.seed, i)
}

// ClockJump, when set (by the workers, to the clock seam of the scratch copy), lets simulated
// time pass: a scripted Read that "takes" J milliseconds calls it before it returns.
var ClockJump func(ms int64)

// GCNow, when set (by the workers), completes a garbage-collection cycle and gives finalizers time to run:
// a scripted Read with G set calls it before it returns.
var GCNow func()

func (x *Dev) Read(p []byte) (int, error) {
	if x.Hook != nil {
		x.Hook()
	}
	k, ek := len(p), ""
	var took int64
	if x.step < len(x.script) {
		s := x.script[x.step]
		x.step++
		took = s.J
		if s.G && GCNow != nil {
			GCNow()
			x.GCs++
		}
		if s.J != 0 {
			x.SlowMs += s.J
			if ClockJump != nil {
				ClockJump(s.J)
			}
		}
		if s.D < k {
			k = s.D
		}
		if k < 0 {
			k = 0
		}
		ek = s.E
	}
	if ek == "panic-str" || ek == "panic-err" {
		// a dying device: Read itself panics (after possibly delivering nothing in this call)
		x.Log = append(x.Log, core.ReadRec{Asked: len(p), Gave: 0, Err: ek, J: took})
		if x.FirstErr < 0 {
			x.FirstErr = len(x.Log) - 1
			x.DAtErr = x.Pos
		}
		if ek == "panic-str" {
			panic("simulated device died")
		}
		panic(ErrSim)
	}
	for i := 0; i < k; i++ {
		p[i] = x.byteAt(x.Pos + i)
	}
	if room := MaxKeep - len(x.Delivered); room > 0 { // the log keeps the first MaxKeep bytes only
		if room > k {
			room = k
		}
		x.Delivered = append(x.Delivered, p[:room]...)
	}
	x.Pos += k
	if x.FirstErr >= 0 {
		x.AfterErr++
	}
	x.Log = append(x.Log, core.ReadRec{Asked: len(p), Gave: k, Err: ek, J: took})
	if ek != "" && x.FirstErr < 0 {
		x.FirstErr = len(x.Log) - 1
		x.DAtErr = x.Pos
	}
	if k == 0 && ek == "" && len(p) > 0 {
		x.Stalls++
	}
	return k, ErrOf(ek)
}

// Safe serialises access to a device that goroutines the simulator does not schedule
// may read concurrently (helper goroutines the code under test starts itself).
type Safe struct {
	mu sync.Mutex
	D  *Dev
}

func NewSafe() *Safe { return &Safe{D: New(nil)} }

func (s *Safe) Read(p []byte) (int, error) {
	s.mu.Lock()
	defer s.mu.Unlock()
	return s.D.Read(p)
}

// Chunks returns the bytes of every Read so far, one entry per call (at most max entries).
func (s *Safe) Chunks(max int) [][]byte {
	s.mu.Lock()
	defer s.mu.Unlock()
	var out [][]byte
	pos := 0
	for _, r := range s.D.Log {
		if len(out) >= max || pos+r.Gave > len(s.D.Delivered) {
			break
		}
		if r.Gave > 0 {
			out = append(out, append([]byte(nil), s.D.Delivered[pos:pos+r.Gave]...))
		}
		pos += r.Gave
	}
	return out
}

// DeliveredCopy returns what the device has handed out so far.
func (s *Safe) DeliveredCopy() []byte {
	s.mu.Lock()
	defer s.mu.Unlock()
	return append([]byte(nil), s.D.Delivered...)
}
