// Package presim replaces crypto/rand.Reader by the simulated device before
// package github.com/islishude/bip39 is initialised. Go initialises packages in
// import-path order among those whose dependencies are ready; "a0verif/..."
// sorts before "github.com/...", so bip39's `var cryptoRander = rand.Reader`
// captures the device. The worker self-checks this at start (SEAM-FAILED).
package presim

import (
	"crypto/rand"
	"io"

	"a0verif/harness/dev"
)

var Orig io.Reader
var Device *dev.Dev

func init() {
	Orig = rand.Reader
	Device = dev.New(nil)
	rand.Reader = Device
}
